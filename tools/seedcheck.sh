#!/bin/bash
# usage: seedcheck.sh <Cxx-n> [extra props...]  runs the quick check(s) against a confirmed seeded change, records the outcome
sid=$1; shift
prop=${sid%%-*}
d=/verif/seeded/$sid
[ -f $d/patch.diff ] || { echo "no such seed $sid"; exit 2; }
res=""
for p in $prop "$@"; do
  out=$(/verif/tools/mutcheck.sh $d/patch.diff $p 2>&1)
  line=$(echo "$out" | grep "^==" | head -1)
  first=$(echo "$out" | grep -A1 '^VIOLATION' | sed -n 2p | cut -c1-220)
  echo "$sid $line | $first"
  rc=$(echo "$line" | sed 's/.*exit=\([0-9]*\).*/\1/')
  res="$res $p:$rc"
  echo "$p exit=$rc :: $first" >> $d/check-results.txt
done
