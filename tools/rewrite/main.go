// rewrite: redirects selected std-library call sites of a scratch copy of the
// sod package to the vshim package, so that the verification harness owns the
// file-system boundary (-fs), the clock (-time), the lock objects (-locks) and
// goroutine spawning (-go).  With -yield every redirected fs call site instead
// gets a synchronisation-free scheduling perturbation (used by the race build).
//
// It only edits the copy given by -dir; /repo is never touched.
package main

import (
	"bytes"
	"flag"
	"fmt"
	"go/ast"
	"go/format"
	"go/parser"
	"go/token"
	"os"
	"path/filepath"
	"strconv"
	"strings"
)

const shimImport = "github.com/0xrawsec/sod/vshim"

var fsTable = map[string]map[string]bool{
	"os": set("Stat", "Lstat", "Mkdir", "MkdirAll", "Remove", "RemoveAll", "ReadDir", "Open",
		"OpenFile", "Create", "CreateTemp", "Rename", "WriteFile", "ReadFile", "Truncate",
		"Chmod", "Link", "Symlink", "File"),
	"io/ioutil": set("WriteFile", "ReadFile", "ReadDir", "TempFile"),
}
var timeTable = map[string]map[string]bool{
	"time": set("Sleep", "After", "NewTimer", "NewTicker", "Tick", "AfterFunc", "Timer", "Ticker"),
}
var lockTable = map[string]map[string]bool{
	"sync": set("RWMutex", "Mutex"),
}

// name a redirected io/ioutil symbol gets inside vshim
var rename = map[string]string{
	"io/ioutil.WriteFile": "WriteFile",
	"io/ioutil.ReadFile":  "ReadFile",
	"io/ioutil.ReadDir":   "IoutilReadDir",
	"io/ioutil.TempFile":  "CreateTemp",
}

var keepAlive = map[string]string{
	"os":        "os.ErrNotExist",
	"io/ioutil": "ioutil.Discard",
	"time":      "time.Nanosecond",
	"sync":      "sync.Once{}",
}

func set(s ...string) map[string]bool {
	m := map[string]bool{}
	for _, x := range s {
		m[x] = true
	}
	return m
}

func main() {
	dir := flag.String("dir", "", "directory holding the package copy")
	fs := flag.Bool("fs", false, "redirect file-system calls")
	tm := flag.Bool("time", false, "redirect time.Sleep & co")
	locks := flag.Bool("locks", false, "redirect sync.RWMutex/Mutex")
	gos := flag.Bool("go", false, "route go statements through vshim.Go")
	yield := flag.Bool("yield", false, "insert vshim.Yield() before fs call statements instead of redirecting them")
	flag.Parse()
	if *dir == "" {
		fmt.Fprintln(os.Stderr, "rewrite: -dir required")
		os.Exit(2)
	}
	files, _ := filepath.Glob(filepath.Join(*dir, "*.go"))
	total := 0
	for _, f := range files {
		if strings.HasSuffix(f, "_test.go") {
			continue
		}
		n, err := rewriteFile(f, *fs, *tm, *locks, *gos, *yield)
		if err != nil {
			fmt.Fprintf(os.Stderr, "rewrite: %s: %v\n", f, err)
			os.Exit(2)
		}
		total += n
	}
	fmt.Printf("rewrite: %d sites redirected\n", total)
}

func rewriteFile(path string, fs, tm, locks, gos, yield bool) (int, error) {
	fset := token.NewFileSet()
	file, err := parser.ParseFile(fset, path, nil, parser.ParseComments)
	if err != nil {
		return 0, err
	}
	// local name -> import path
	imports := map[string]string{}
	for _, im := range file.Imports {
		p, _ := strconv.Unquote(im.Path.Value)
		name := filepath.Base(p)
		if im.Name != nil {
			name = im.Name.Name
		}
		if name == "_" || name == "." {
			continue
		}
		imports[name] = p
	}
	tables := map[string]map[string]bool{}
	if fs && !yield {
		for k, v := range fsTable {
			tables[k] = v
		}
	}
	if tm {
		for k, v := range timeTable {
			tables[k] = v
		}
	}
	if locks {
		for k, v := range lockTable {
			tables[k] = v
		}
	}
	n := 0
	usedShim := false
	touched := map[string]bool{}

	// db.Lock(), m.RUnlock(), ... as a statement: a scheduling point for the race build
	isLockStmt := func(e ast.Expr) bool {
		if call, ok := e.(*ast.CallExpr); ok {
			if sel, ok := call.Fun.(*ast.SelectorExpr); ok && len(call.Args) == 0 {
				switch sel.Sel.Name {
				case "Lock", "RLock", "Unlock", "RUnlock":
					return true
				}
			}
		}
		return false
	}

	isFsCall := func(e ast.Expr) bool {
		found := false
		ast.Inspect(e, func(nd ast.Node) bool {
			if sel, ok := nd.(*ast.SelectorExpr); ok {
				if id, ok := sel.X.(*ast.Ident); ok && id.Obj == nil {
					if p, ok := imports[id.Name]; ok {
						if t, ok := fsTable[p]; ok && t[sel.Sel.Name] && sel.Sel.Name != "File" {
							found = true
						}
					}
				}
			}
			return !found
		})
		return found
	}

	// statement-level edits (go statements, yield points)
	var fixBlock func(list []ast.Stmt) []ast.Stmt
	fixBlock = func(list []ast.Stmt) []ast.Stmt {
		out := make([]ast.Stmt, 0, len(list))
		for _, st := range list {
			if yield {
				hit := false
				switch s := st.(type) {
				case *ast.ExprStmt:
					hit = isFsCall(s.X) || isLockStmt(s.X)
				case *ast.AssignStmt:
					for _, r := range s.Rhs {
						hit = hit || isFsCall(r)
					}
				case *ast.ReturnStmt:
					for _, r := range s.Results {
						hit = hit || isFsCall(r)
					}
				case *ast.IfStmt:
					if s.Init != nil {
						if as, ok := s.Init.(*ast.AssignStmt); ok {
							for _, r := range as.Rhs {
								hit = hit || isFsCall(r)
							}
						}
					}
				}
				if hit {
					out = append(out, &ast.ExprStmt{X: &ast.CallExpr{Fun: &ast.SelectorExpr{X: ast.NewIdent("vshim"), Sel: ast.NewIdent("Yield")}}})
					usedShim = true
					n++
				}
			}
			if gs, ok := st.(*ast.GoStmt); ok && gos {
				// go f(args)  ==>  vshim.Go(func() { f(args) })
				lit := &ast.FuncLit{
					Type: &ast.FuncType{Params: &ast.FieldList{}},
					Body: &ast.BlockStmt{List: []ast.Stmt{&ast.ExprStmt{X: gs.Call}}},
				}
				st = &ast.ExprStmt{X: &ast.CallExpr{
					Fun:  &ast.SelectorExpr{X: ast.NewIdent("vshim"), Sel: ast.NewIdent("Go")},
					Args: []ast.Expr{lit},
				}}
				usedShim = true
				n++
			}
			out = append(out, st)
		}
		return out
	}
	ast.Inspect(file, func(nd ast.Node) bool {
		switch b := nd.(type) {
		case *ast.BlockStmt:
			b.List = fixBlock(b.List)
		case *ast.CaseClause:
			b.Body = fixBlock(b.Body)
		case *ast.CommClause:
			b.Body = fixBlock(b.Body)
		}
		return true
	})

	ast.Inspect(file, func(nd ast.Node) bool {
		sel, ok := nd.(*ast.SelectorExpr)
		if !ok {
			return true
		}
		id, ok := sel.X.(*ast.Ident)
		if !ok || id.Obj != nil { // Obj != nil: a local declaration shadows the package
			return true
		}
		p, ok := imports[id.Name]
		if !ok {
			return true
		}
		t, ok := tables[p]
		if !ok || !t[sel.Sel.Name] {
			return true
		}
		if r, ok := rename[p+"."+sel.Sel.Name]; ok {
			sel.Sel.Name = r
		}
		id.Name = "vshim"
		touched[p] = true
		usedShim = true
		n++
		return true
	})

	if !usedShim {
		return 0, nil
	}
	// add import
	addImport(file, shimImport)
	var buf bytes.Buffer
	if err := format.Node(&buf, fset, file); err != nil {
		return 0, err
	}
	// keep-alives so that imports never become unused
	buf.WriteString("\n")
	for name, p := range imports {
		if ka, ok := keepAlive[p]; ok && touched[p] {
			ka = strings.Replace(ka, filepath.Base(p)+".", name+".", 1)
			fmt.Fprintf(&buf, "var _ = %s\n", ka)
		}
	}
	return n, os.WriteFile(path, buf.Bytes(), 0644)
}

func addImport(file *ast.File, path string) {
	for _, im := range file.Imports {
		if im.Path.Value == strconv.Quote(path) {
			return
		}
	}
	spec := &ast.ImportSpec{Path: &ast.BasicLit{Kind: token.STRING, Value: strconv.Quote(path)}}
	for _, d := range file.Decls {
		if gd, ok := d.(*ast.GenDecl); ok && gd.Tok == token.IMPORT {
			gd.Specs = append(gd.Specs, spec)
			if !gd.Lparen.IsValid() {
				gd.Lparen = gd.Pos()
			}
			file.Imports = append(file.Imports, spec)
			return
		}
	}
	gd := &ast.GenDecl{Tok: token.IMPORT, Specs: []ast.Spec{spec}}
	file.Decls = append([]ast.Decl{gd}, file.Decls...)
	file.Imports = append(file.Imports, spec)
}
