#!/bin/bash
# runs every registered check of a tier sequentially; prints one line per property
tier=${1:-quick}
cd "$(dirname "$0")/.."
for p in $(python3 -c "import json;print(' '.join(c['property_id'] for c in json.load(open('MANIFEST.json'))['checks']))"); do
  s=$(date +%s)
  out=$(./check $p $tier 2>&1); rc=$?
  e=$(date +%s)
  echo "$p rc=$rc $((e-s))s $(echo "$out" | grep -c '^KNOWN-FINDING') known | $(echo "$out" | grep '^OK\|^VIOLATION\|^INCONCLUSIVE' | head -2 | cut -c1-160 | tr '\n' ' ')"
done
