// Package vshim is dropped into the scratch copy of the sod package at check
// time.  Redirected call sites (see tools/rewrite) land here, which lets the
// verification harness record, cut, fault or black-hole file-system mutations
// per database root, own the clock, and monitor lock discipline.  In its
// default state every function is a plain pass-through to the std library.
package vshim

import (
	"errors"
	"io"
	"io/fs"
	"os"
	"path/filepath"
	"strings"
	"sync"
	"sync/atomic"
	"syscall"
)

// ---------------------------------------------------------------- fs modes

const (
	ModePass = iota
	ModeRecord
	ModeBlackhole
)

// Rec is one recorded file-system mutation.
type Rec struct {
	Kind string `json:"k"`            // mkdir mkdirall open write close remove removeall rename truncate
	Path string `json:"p"`            // path relative to the root
	To   string `json:"to,omitempty"` // rename target (relative)
	Data []byte `json:"d,omitempty"`  // write payload
	Off  int64  `json:"o,omitempty"`  // write offset / truncate size
	Flag int    `json:"f,omitempty"`  // open flags
	Perm uint32 `json:"m,omitempty"`
	Tag  string `json:"t,omitempty"` // API call during which it happened
	FD   int    `json:"fd,omitempty"`
}

// ErrInjected is what an injected storage fault returns (wraps EIO).
var ErrInjected = &fs.PathError{Op: "vshim", Path: "injected", Err: syscall.EIO}

type root struct {
	prefix string
	mode   int
	log    []Rec
	tag    string
	// fault injection: the faultAt-th mutation (0-based, counted since Arm) fails
	armed    bool
	faultAt  int
	count    int
	short    bool // a faulted write first writes half of its payload
	fired    bool
	failFrom bool // every mutation from faultAt on fails
	nextFD   int
}

var (
	fsMu    sync.Mutex
	roots   []*root
	nActive int32
)

func lookup(path string) *root {
	if atomic.LoadInt32(&nActive) == 0 {
		return nil
	}
	fsMu.Lock()
	defer fsMu.Unlock()
	for _, r := range roots {
		if path == r.prefix || strings.HasPrefix(path, r.prefix+string(os.PathSeparator)) {
			return r
		}
	}
	return nil
}

// Register starts managing everything under prefix with the given mode.
func Register(prefix string, mode int) {
	fsMu.Lock()
	defer fsMu.Unlock()
	prefix = filepath.Clean(prefix)
	for _, r := range roots {
		if r.prefix == prefix {
			r.mode = mode
			return
		}
	}
	roots = append(roots, &root{prefix: prefix, mode: mode, faultAt: -1})
	atomic.StoreInt32(&nActive, int32(len(roots)))
}

// Unregister forgets a root (pass-through again).
func Unregister(prefix string) {
	fsMu.Lock()
	defer fsMu.Unlock()
	prefix = filepath.Clean(prefix)
	for i, r := range roots {
		if r.prefix == prefix {
			roots = append(roots[:i], roots[i+1:]...)
			break
		}
	}
	atomic.StoreInt32(&nActive, int32(len(roots)))
}

func with(prefix string, f func(r *root)) {
	fsMu.Lock()
	defer fsMu.Unlock()
	prefix = filepath.Clean(prefix)
	for _, r := range roots {
		if r.prefix == prefix {
			f(r)
			return
		}
	}
}

// SetMode changes the mode of a registered root.
func SetMode(prefix string, mode int) { with(prefix, func(r *root) { r.mode = mode }) }

// SetTag labels subsequent records with the API call in flight.
func SetTag(prefix, tag string) { with(prefix, func(r *root) { r.tag = tag }) }

// Log returns a copy of the records so far.
func Log(prefix string) (out []Rec) {
	with(prefix, func(r *root) { out = append(out, r.log...) })
	return
}

// ResetLog drops the records.
func ResetLog(prefix string) { with(prefix, func(r *root) { r.log = nil }) }

// Arm makes the k-th mutation from now on fail with ErrInjected (k 0-based).
// With short, a failing write first writes half of its payload.
func Arm(prefix string, k int, short bool) {
	with(prefix, func(r *root) { r.armed, r.faultAt, r.count, r.short, r.fired = true, k, 0, short, false })
}

// ArmFrom makes the k-th mutation from now on and EVERY later one fail (the storage is gone:
// disk full, volume unmounted, directory replaced).
func ArmFrom(prefix string, k int) {
	with(prefix, func(r *root) {
		r.armed, r.faultAt, r.count, r.short, r.fired, r.failFrom = true, k, 0, false, false, true
	})
}

// Disarm stops fault injection and reports how many mutations were counted
// since Arm and whether the fault fired.
func Disarm(prefix string) (count int, fired bool) {
	with(prefix, func(r *root) { count, fired = r.count, r.fired; r.armed = false; r.faultAt = -1; r.failFrom = false })
	return
}

// decision for one mutation
type verdict struct {
	skip  bool // black hole: pretend success
	fail  bool // injected fault
	short bool
}

func (r *root) rel(p string) string {
	rel, err := filepath.Rel(r.prefix, p)
	if err != nil {
		return p
	}
	return rel
}

// mutate is called before every mutation on a managed root.
func (r *root) mutate(rec Rec) verdict {
	fsMu.Lock()
	defer fsMu.Unlock()
	if r.mode == ModeBlackhole {
		return verdict{skip: true}
	}
	if r.armed {
		k := r.count
		r.count++
		if k == r.faultAt || (r.failFrom && k > r.faultAt) {
			r.fired = true
			return verdict{fail: true, short: r.short}
		}
	}
	if r.mode == ModeRecord {
		rec.Tag = r.tag
		r.log = append(r.log, rec)
	}
	return verdict{}
}

func (r *root) newFD() int {
	fsMu.Lock()
	defer fsMu.Unlock()
	r.nextFD++
	return r.nextFD
}

// ---------------------------------------------------------------- os wrappers

func Stat(name string) (os.FileInfo, error)  { return os.Stat(name) }
func Lstat(name string) (os.FileInfo, error) { return os.Lstat(name) }
func ReadDir(name string) ([]os.DirEntry, error) {
	return os.ReadDir(name)
}
func ReadFile(name string) ([]byte, error) { return os.ReadFile(name) }

func IoutilReadDir(name string) ([]fs.FileInfo, error) {
	ents, err := os.ReadDir(name)
	if err != nil {
		return nil, err
	}
	out := make([]fs.FileInfo, 0, len(ents))
	for _, e := range ents {
		fi, err := e.Info()
		if err != nil {
			return nil, err
		}
		out = append(out, fi)
	}
	return out, nil
}

func Mkdir(name string, perm os.FileMode) error {
	if r := lookup(name); r != nil {
		if _, err := os.Stat(name); err == nil {
			return os.Mkdir(name, perm) // EEXIST, no mutation
		}
		v := r.mutate(Rec{Kind: "mkdir", Path: r.rel(name), Perm: uint32(perm)})
		if v.skip {
			return nil
		}
		if v.fail {
			return ErrInjected
		}
	}
	return os.Mkdir(name, perm)
}

func MkdirAll(name string, perm os.FileMode) error {
	if r := lookup(name); r != nil {
		if fi, err := os.Stat(name); err == nil && fi.IsDir() {
			return nil // nothing to do: not a mutation, not a crash point
		}
		v := r.mutate(Rec{Kind: "mkdirall", Path: r.rel(name), Perm: uint32(perm)})
		if v.skip {
			return nil
		}
		if v.fail {
			return ErrInjected
		}
	}
	return os.MkdirAll(name, perm)
}

func Remove(name string) error {
	if r := lookup(name); r != nil {
		if _, err := os.Lstat(name); err != nil {
			return os.Remove(name) // will fail on its own; no mutation
		}
		v := r.mutate(Rec{Kind: "remove", Path: r.rel(name)})
		if v.skip {
			return nil
		}
		if v.fail {
			return ErrInjected
		}
	}
	return os.Remove(name)
}

func RemoveAll(name string) error {
	if r := lookup(name); r != nil {
		v := r.mutate(Rec{Kind: "removeall", Path: r.rel(name)})
		if v.skip {
			return nil
		}
		if v.fail {
			return ErrInjected
		}
	}
	return os.RemoveAll(name)
}

func Rename(from, to string) error {
	if r := lookup(from); r != nil {
		v := r.mutate(Rec{Kind: "rename", Path: r.rel(from), To: r.rel(to)})
		if v.skip {
			return nil
		}
		if v.fail {
			return ErrInjected
		}
	}
	return os.Rename(from, to)
}

func Link(from, to string) error {
	if r := lookup(to); r != nil {
		v := r.mutate(Rec{Kind: "link", Path: r.rel(from), To: r.rel(to)})
		if v.skip {
			return nil
		}
		if v.fail {
			return ErrInjected
		}
	}
	return os.Link(from, to)
}

func Symlink(from, to string) error {
	if r := lookup(to); r != nil {
		v := r.mutate(Rec{Kind: "symlink", Path: from, To: r.rel(to)})
		if v.skip {
			return nil
		}
		if v.fail {
			return ErrInjected
		}
	}
	return os.Symlink(from, to)
}

func Truncate(name string, size int64) error {
	if r := lookup(name); r != nil {
		v := r.mutate(Rec{Kind: "truncate", Path: r.rel(name), Off: size})
		if v.skip {
			return nil
		}
		if v.fail {
			return ErrInjected
		}
	}
	return os.Truncate(name, size)
}

func Chmod(name string, mode os.FileMode) error { return os.Chmod(name, mode) }

func WriteFile(name string, data []byte, perm os.FileMode) error {
	f, err := OpenFile(name, os.O_WRONLY|os.O_CREATE|os.O_TRUNC, perm)
	if err != nil {
		return err
	}
	_, err = f.Write(data)
	if err1 := f.Close(); err1 != nil && err == nil {
		err = err1
	}
	return err
}

// File wraps *os.File so that mutations through a handle are seen as well.
type File struct {
	*os.File
	r    *root
	rel  string
	fd   int
	hole bool // black-holed handle (no real file behind it)
}

func Open(name string) (*File, error) {
	f, err := os.Open(name)
	if err != nil {
		return nil, err
	}
	return &File{File: f}, nil
}

func Create(name string) (*File, error) {
	return OpenFile(name, os.O_RDWR|os.O_CREATE|os.O_TRUNC, 0666)
}

func CreateTemp(dir, pattern string) (*File, error) {
	// choose the name ourselves so that the creation can be recorded
	if dir == "" {
		dir = os.TempDir()
	}
	for i := 0; i < 10000; i++ {
		name := filepath.Join(dir, strings.Replace(pattern, "*", "", 1)+"vt"+itoa(int(atomic.AddInt64(&tmpSeq, 1))))
		f, err := OpenFile(name, os.O_RDWR|os.O_CREATE|os.O_EXCL, 0600)
		if errors.Is(err, fs.ErrExist) {
			continue
		}
		return f, err
	}
	return nil, errors.New("vshim: cannot create temp file")
}

var tmpSeq int64

func itoa(i int) string {
	if i == 0 {
		return "0"
	}
	s := ""
	for i > 0 {
		s = string(rune('0'+i%10)) + s
		i /= 10
	}
	return s
}

func OpenFile(name string, flag int, perm os.FileMode) (*File, error) {
	r := lookup(name)
	mutating := flag&(os.O_CREATE|os.O_TRUNC|os.O_WRONLY|os.O_RDWR|os.O_APPEND) != 0
	if r == nil || !mutating {
		f, err := os.OpenFile(name, flag, perm)
		if err != nil {
			return nil, err
		}
		return &File{File: f}, nil
	}
	fd := r.newFD()
	v := r.mutate(Rec{Kind: "open", Path: r.rel(name), Flag: flag, Perm: uint32(perm), FD: fd})
	if v.skip {
		return &File{r: r, rel: r.rel(name), fd: fd, hole: true}, nil
	}
	if v.fail {
		return nil, ErrInjected
	}
	f, err := os.OpenFile(name, flag, perm)
	if err != nil {
		return nil, err
	}
	return &File{File: f, r: r, rel: r.rel(name), fd: fd}, nil
}

func (f *File) Write(b []byte) (int, error) {
	if f.r == nil {
		return f.File.Write(b)
	}
	var off int64
	if !f.hole {
		off, _ = f.File.Seek(0, io.SeekCurrent)
	}
	v := f.r.mutate(Rec{Kind: "write", Path: f.rel, Data: append([]byte(nil), b...), Off: off, FD: f.fd})
	if v.skip || f.hole {
		return len(b), nil
	}
	if v.fail {
		n := 0
		if v.short && len(b) > 1 {
			n, _ = f.File.Write(b[:len(b)/2])
		}
		return n, ErrInjected
	}
	return f.File.Write(b)
}

func (f *File) WriteString(s string) (int, error) { return f.Write([]byte(s)) }

func (f *File) WriteAt(b []byte, off int64) (int, error) {
	if f.r == nil {
		return f.File.WriteAt(b, off)
	}
	v := f.r.mutate(Rec{Kind: "write", Path: f.rel, Data: append([]byte(nil), b...), Off: off, FD: f.fd})
	if v.skip || f.hole {
		return len(b), nil
	}
	if v.fail {
		return 0, ErrInjected
	}
	return f.File.WriteAt(b, off)
}

// ReadFrom must not be promoted from *os.File (io.Copy would bypass Write).
func (f *File) ReadFrom(r io.Reader) (int64, error) {
	buf := make([]byte, 32*1024)
	var total int64
	for {
		n, err := r.Read(buf)
		if n > 0 {
			w, werr := f.Write(buf[:n])
			total += int64(w)
			if werr != nil {
				return total, werr
			}
		}
		if err == io.EOF {
			return total, nil
		}
		if err != nil {
			return total, err
		}
	}
}

func (f *File) Truncate(size int64) error {
	if f.r == nil {
		return f.File.Truncate(size)
	}
	v := f.r.mutate(Rec{Kind: "truncate", Path: f.rel, Off: size, FD: f.fd})
	if v.skip || f.hole {
		return nil
	}
	if v.fail {
		return ErrInjected
	}
	return f.File.Truncate(size)
}

func (f *File) Sync() error {
	if f.hole {
		return nil
	}
	return f.File.Sync()
}

func (f *File) Close() error {
	if f.r == nil {
		return f.File.Close()
	}
	if f.hole {
		return nil
	}
	// closing is recorded (a crash point boundary) but never faulted or skipped
	fsMu.Lock()
	if f.r.mode == ModeRecord {
		f.r.log = append(f.r.log, Rec{Kind: "close", Path: f.rel, FD: f.fd, Tag: f.r.tag})
	}
	fsMu.Unlock()
	return f.File.Close()
}

func (f *File) Read(b []byte) (int, error) {
	if f.hole {
		return 0, io.EOF
	}
	return f.File.Read(b)
}

func (f *File) Stat() (os.FileInfo, error) {
	if f.hole {
		return nil, fs.ErrNotExist
	}
	return f.File.Stat()
}

// ---------------------------------------------------------------- materialise

// Materialise replays log[:k] into dst (a fresh directory).  When torn >= 0
// and log[k-1] is a write, only its first torn bytes are applied.
func Materialise(dst string, log []Rec, k int, torn int) error {
	if err := os.MkdirAll(dst, 0700); err != nil {
		return err
	}
	open := map[int]*os.File{}
	defer func() {
		for _, f := range open {
			f.Close()
		}
	}()
	for i := 0; i < k && i < len(log); i++ {
		rec := log[i]
		p := filepath.Join(dst, rec.Path)
		var err error
		switch rec.Kind {
		case "mkdir":
			err = os.Mkdir(p, os.FileMode(rec.Perm))
		case "mkdirall":
			err = os.MkdirAll(p, os.FileMode(rec.Perm))
		case "open":
			var f *os.File
			f, err = os.OpenFile(p, rec.Flag, os.FileMode(rec.Perm))
			if err == nil {
				open[rec.FD] = f
			}
		case "write":
			data := rec.Data
			if i == k-1 && torn >= 0 && torn < len(data) {
				data = data[:torn]
			}
			if f, ok := open[rec.FD]; ok {
				_, err = f.WriteAt(data, rec.Off)
			} else {
				var f *os.File
				if f, err = os.OpenFile(p, os.O_WRONLY, 0); err == nil {
					_, err = f.WriteAt(data, rec.Off)
					f.Close()
				}
			}
		case "close":
			if f, ok := open[rec.FD]; ok {
				err = f.Close()
				delete(open, rec.FD)
			}
		case "truncate":
			if f, ok := open[rec.FD]; ok && rec.FD != 0 {
				err = f.Truncate(rec.Off)
			} else {
				err = os.Truncate(p, rec.Off)
			}
		case "remove":
			err = os.Remove(p)
		case "removeall":
			err = os.RemoveAll(p)
		case "rename":
			err = os.Rename(p, filepath.Join(dst, rec.To))
		case "link":
			err = os.Link(p, filepath.Join(dst, rec.To))
		case "symlink":
			err = os.Symlink(rec.Path, filepath.Join(dst, rec.To))
		}
		if err != nil {
			return errors.New("materialise: record " + itoa(i) + " " + rec.Kind + " " + rec.Path + ": " + err.Error())
		}
	}
	return nil
}
