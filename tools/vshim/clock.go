package vshim

import (
	"runtime"
	"sort"
	"sync"
	"sync/atomic"
	"time"
)

// ---------------------------------------------------------------- clock
//
// Three modes: real (default, pass-through), scaled (every duration divided by
// a factor) and virtual (sleepers park until the harness advances the clock).

const (
	ClockReal = iota
	ClockScaled
	ClockVirtual
)

type sleeper struct {
	wake time.Duration
	ch   chan struct{}
	gid  uint64
	fire func() // timers: called instead of closing ch (may be nil)
	seq  int64
	dead bool
}

var (
	clockMode  int32
	clockScale int64 = 1

	ckMu     sync.Mutex
	ckCond   = sync.NewCond(&ckMu)
	now      time.Duration
	sleepers []*sleeper
	seq      int64
	// goroutines spawned through Go() that are neither parked nor finished
	running = map[uint64]bool{}
	// every goroutine spawned through Go() that has not finished yet
	alive = map[uint64]bool{}
)

// SetClock selects the clock mode; scale is used by ClockScaled.
func SetClock(mode int, scale int) {
	ckMu.Lock()
	defer ckMu.Unlock()
	if scale < 1 {
		scale = 1
	}
	atomic.StoreInt64(&clockScale, int64(scale))
	atomic.StoreInt32(&clockMode, int32(mode))
	if mode != ClockVirtual {
		// release everybody
		for _, s := range sleepers {
			if !s.dead {
				s.dead = true
				if s.fire != nil {
					go s.fire()
				} else {
					close(s.ch)
				}
			}
		}
		sleepers = nil
	}
}

// ResetClock puts the virtual clock back to zero and forgets goroutine bookkeeping.
func ResetClock() {
	ckMu.Lock()
	defer ckMu.Unlock()
	now = 0
	for _, s := range sleepers {
		if !s.dead {
			s.dead = true
			if s.fire == nil {
				close(s.ch)
			}
		}
	}
	sleepers = nil
	running = map[uint64]bool{}
	alive = map[uint64]bool{}
}

func gid() uint64 {
	var buf [64]byte
	n := runtime.Stack(buf[:], false)
	// "goroutine 123 ["
	var id uint64
	for i := len("goroutine "); i < n; i++ {
		c := buf[i]
		if c < '0' || c > '9' {
			break
		}
		id = id*10 + uint64(c-'0')
	}
	return id
}

// Go runs f in a new goroutine that the clock knows about, so that the harness
// can wait until all background goroutines are parked in a Sleep (or gone).
func Go(f func()) {
	started := make(chan uint64)
	go func() {
		id := gid()
		ckMu.Lock()
		running[id] = true
		alive[id] = true
		ckMu.Unlock()
		started <- id
		defer func() {
			ckMu.Lock()
			delete(running, id)
			delete(alive, id)
			ckCond.Broadcast()
			ckMu.Unlock()
		}()
		f()
	}()
	<-started
}

// Alive reports how many goroutines spawned through Go are still around.
func Alive() int {
	ckMu.Lock()
	defer ckMu.Unlock()
	return len(alive)
}

func Sleep(d time.Duration) {
	switch atomic.LoadInt32(&clockMode) {
	case ClockReal:
		time.Sleep(d)
		return
	case ClockScaled:
		perturb()
		time.Sleep(d / time.Duration(atomic.LoadInt64(&clockScale)))
		return
	}
	ckMu.Lock()
	if atomic.LoadInt32(&clockMode) != ClockVirtual {
		ckMu.Unlock()
		time.Sleep(d)
		return
	}
	id := gid()
	s := &sleeper{wake: now + d, ch: make(chan struct{}), gid: id, seq: seq}
	seq++
	sleepers = append(sleepers, s)
	delete(running, id)
	ckCond.Broadcast()
	ckMu.Unlock()
	<-s.ch
}

// Now returns the virtual time.
func Now() time.Duration {
	ckMu.Lock()
	defer ckMu.Unlock()
	return now
}

// WaitParked blocks until every goroutine spawned through Go is parked in a
// Sleep or has finished; false when that did not happen within the real-time
// guard (the goroutine is busy, blocked on a lock, or waits on something else).
func WaitParked(guard time.Duration) bool {
	deadline := time.Now().Add(guard)
	ckMu.Lock()
	defer ckMu.Unlock()
	for len(running) > 0 {
		if time.Now().After(deadline) {
			return false
		}
		// cond has no timed wait: poll gently
		ckMu.Unlock()
		time.Sleep(50 * time.Microsecond)
		ckMu.Lock()
	}
	return true
}

// Advance moves the virtual clock forward by d, waking sleepers in wake order
// and, after each wake-up, waiting (up to guard) for the woken goroutines to
// park again.  Reports whether everything was parked at the end.
func Advance(d time.Duration, guard time.Duration) bool {
	ckMu.Lock()
	target := now + d
	ckMu.Unlock()
	ok := true
	for {
		ckMu.Lock()
		// earliest live sleeper due by target
		sort.SliceStable(sleepers, func(i, j int) bool {
			if sleepers[i].wake != sleepers[j].wake {
				return sleepers[i].wake < sleepers[j].wake
			}
			return sleepers[i].seq < sleepers[j].seq
		})
		if len(sleepers) == 0 || sleepers[0].wake > target {
			now = target
			ckMu.Unlock()
			return ok
		}
		s := sleepers[0]
		sleepers = sleepers[1:]
		if s.wake > now {
			now = s.wake
		}
		s.dead = true
		if s.fire != nil {
			ckMu.Unlock()
			s.fire()
		} else {
			if alive[s.gid] {
				running[s.gid] = true
			}
			close(s.ch)
			ckMu.Unlock()
		}
		if !WaitParked(guard) {
			ok = false
		}
	}
}

// ReleaseAll wakes every parked sleeper (teardown).
func ReleaseAll() {
	ckMu.Lock()
	defer ckMu.Unlock()
	for _, s := range sleepers {
		if !s.dead {
			s.dead = true
			if s.fire == nil {
				close(s.ch)
			}
		}
	}
	sleepers = nil
}

// ---- timers (only what a flusher could plausibly use)

type Timer struct {
	C  <-chan time.Time
	c  chan time.Time
	rt *time.Timer
	s  *sleeper
	f  func()
}

func scaled(d time.Duration) time.Duration {
	if atomic.LoadInt32(&clockMode) == ClockScaled {
		return d / time.Duration(atomic.LoadInt64(&clockScale))
	}
	return d
}

func newTimer(d time.Duration, f func()) *Timer {
	t := &Timer{f: f}
	if atomic.LoadInt32(&clockMode) != ClockVirtual {
		if f != nil {
			t.rt = time.AfterFunc(scaled(d), f)
		} else {
			t.rt = time.NewTimer(scaled(d))
			t.C = t.rt.C
		}
		return t
	}
	t.c = make(chan time.Time, 1)
	t.C = t.c
	t.arm(d)
	return t
}

func (t *Timer) arm(d time.Duration) {
	ckMu.Lock()
	defer ckMu.Unlock()
	s := &sleeper{wake: now + d, seq: seq}
	seq++
	s.fire = func() {
		if t.f != nil {
			Go(t.f)
			return
		}
		select {
		case t.c <- time.Unix(0, 0):
		default:
		}
	}
	t.s = s
	sleepers = append(sleepers, s)
}

func (t *Timer) Stop() bool {
	if t.rt != nil {
		return t.rt.Stop()
	}
	ckMu.Lock()
	defer ckMu.Unlock()
	if t.s == nil || t.s.dead {
		return false
	}
	t.s.dead = true
	for i, s := range sleepers {
		if s == t.s {
			sleepers = append(sleepers[:i], sleepers[i+1:]...)
			break
		}
	}
	return true
}

func (t *Timer) Reset(d time.Duration) bool {
	if t.rt != nil {
		return t.rt.Reset(scaled(d))
	}
	active := t.Stop()
	t.arm(d)
	return active
}

func NewTimer(d time.Duration) *Timer           { return newTimer(d, nil) }
func AfterFunc(d time.Duration, f func()) *Timer { return newTimer(d, f) }
func After(d time.Duration) <-chan time.Time     { return newTimer(d, nil).C }

type Ticker struct {
	C    <-chan time.Time
	c    chan time.Time
	rt   *time.Ticker
	d    time.Duration
	stop int32
}

func NewTicker(d time.Duration) *Ticker {
	t := &Ticker{d: d}
	if atomic.LoadInt32(&clockMode) != ClockVirtual {
		dd := scaled(d)
		if dd <= 0 {
			dd = 1
		}
		t.rt = time.NewTicker(dd)
		t.C = t.rt.C
		return t
	}
	t.c = make(chan time.Time, 1)
	t.C = t.c
	t.arm()
	return t
}

func (t *Ticker) arm() {
	ckMu.Lock()
	defer ckMu.Unlock()
	s := &sleeper{wake: now + t.d, seq: seq}
	seq++
	s.fire = func() {
		if atomic.LoadInt32(&t.stop) != 0 {
			return
		}
		select {
		case t.c <- time.Unix(0, 0):
		default:
		}
		t.arm()
	}
	sleepers = append(sleepers, s)
}

func (t *Ticker) Stop() {
	if t.rt != nil {
		t.rt.Stop()
		return
	}
	atomic.StoreInt32(&t.stop, 1)
}

func (t *Ticker) Reset(d time.Duration) {
	if t.rt != nil {
		t.rt.Reset(scaled(d))
		return
	}
	t.d = d
}

func Tick(d time.Duration) <-chan time.Time { return NewTicker(d).C }
