package vshim

import (
	"fmt"
	"math/rand"
	"runtime"
	"sync"
	"sync/atomic"
	"time"
)

// ---------------------------------------------------------------- lock monitor
//
// RWMutex / Mutex wrap the real primitives.  With monitoring off they cost one
// atomic load.  With monitoring on, every acquisition is checked against the
// set of locks the calling goroutine already holds:
//   (a) read re-acquisition of a lock already held in read mode by the same
//       goroutine (deadlocks as soon as a writer queues in between),
//   (b) any acquisition of a lock held in write mode by the same goroutine
//       (self deadlock), or write acquisition of a lock it holds in read mode,
//   (c) a cycle in the global acquisition-order graph.

var (
	monitorOn int32

	lmMu    sync.Mutex
	held    = map[uint64][]heldLock{} // goroutine -> stack of held locks
	order   = map[[2]uintptr]string{} // edge (outer, inner) -> where first seen
	reports []LockReport
	lockIDs = map[interface{}]uintptr{}
	nextID  uintptr
	// when set, a detected read re-acquisition is turned into the bad schedule:
	// a writer is queued on the lock before the second RLock proceeds
	injectWriter int32
)

type heldLock struct {
	id    uintptr
	write bool
}

// LockReport is one finding of the monitor.
type LockReport struct {
	Kind  string `json:"kind"` // reentrant-read, self-deadlock, order-cycle
	Where string `json:"where"`
}

// Monitor switches the lock monitor on or off and clears its state.
func Monitor(on bool, inject bool) {
	lmMu.Lock()
	defer lmMu.Unlock()
	held = map[uint64][]heldLock{}
	order = map[[2]uintptr]string{}
	reports = nil
	var v int32
	if on {
		v = 1
	}
	atomic.StoreInt32(&monitorOn, v)
	v = 0
	if inject {
		v = 1
	}
	atomic.StoreInt32(&injectWriter, v)
}

// LockReports returns what the monitor found since Monitor(true).
func LockReports() []LockReport {
	lmMu.Lock()
	defer lmMu.Unlock()
	return append([]LockReport(nil), reports...)
}

func lockID(p interface{}) uintptr {
	if id, ok := lockIDs[p]; ok {
		return id
	}
	nextID++
	lockIDs[p] = nextID
	return nextID
}

func caller() string {
	pcs := make([]uintptr, 12)
	n := runtime.Callers(4, pcs)
	frames := runtime.CallersFrames(pcs[:n])
	s := ""
	for i := 0; i < 6; i++ {
		fr, more := frames.Next()
		if fr.Function != "" {
			s += fmt.Sprintf("%s:%d <- ", fr.Function, fr.Line)
		}
		if !more {
			break
		}
	}
	return s
}

// before an acquisition; returns true when a reentrant read was detected
func noteAcquire(p interface{}, write bool) (reentrant bool) {
	g := gid()
	lmMu.Lock()
	defer lmMu.Unlock()
	id := lockID(p)
	for _, h := range held[g] {
		if h.id == id {
			switch {
			case h.write:
				reports = append(reports, LockReport{"self-deadlock", caller()})
			case write:
				reports = append(reports, LockReport{"self-deadlock", caller()})
			default:
				reports = append(reports, LockReport{"reentrant-read", caller()})
				reentrant = true
			}
			return
		}
	}
	for _, h := range held[g] {
		e := [2]uintptr{h.id, id}
		if _, ok := order[e]; !ok {
			order[e] = caller()
			// does id reach h.id already?  then we just closed a cycle
			if reaches(id, h.id, map[uintptr]bool{}) {
				reports = append(reports, LockReport{"order-cycle", order[e]})
			}
		}
	}
	return
}

func reaches(from, to uintptr, seen map[uintptr]bool) bool {
	if from == to {
		return true
	}
	if seen[from] {
		return false
	}
	seen[from] = true
	for e := range order {
		if e[0] == from && e[1] != from {
			if reaches(e[1], to, seen) {
				return true
			}
		}
	}
	return false
}

func noteAcquired(p interface{}, write bool) {
	g := gid()
	lmMu.Lock()
	defer lmMu.Unlock()
	held[g] = append(held[g], heldLock{lockID(p), write})
}

func noteRelease(p interface{}, write bool) {
	g := gid()
	lmMu.Lock()
	defer lmMu.Unlock()
	id := lockID(p)
	hs := held[g]
	for i := len(hs) - 1; i >= 0; i-- {
		if hs[i].id == id && hs[i].write == write {
			held[g] = append(hs[:i], hs[i+1:]...)
			break
		}
	}
	if len(held[g]) == 0 {
		delete(held, g)
	}
}

type RWMutex struct {
	mu sync.RWMutex
}

func (m *RWMutex) Lock() {
	if atomic.LoadInt32(&monitorOn) == 0 {
		perturb()
		m.mu.Lock()
		return
	}
	noteAcquire(m, true)
	perturb()
	m.mu.Lock()
	noteAcquired(m, true)
}

func (m *RWMutex) Unlock() {
	if atomic.LoadInt32(&monitorOn) != 0 {
		noteRelease(m, true)
	}
	m.mu.Unlock()
}

func (m *RWMutex) RLock() {
	if atomic.LoadInt32(&monitorOn) == 0 {
		perturb()
		m.mu.RLock()
		return
	}
	re := noteAcquire(m, false)
	if re && atomic.LoadInt32(&injectWriter) != 0 {
		// materialise the schedule every mutating call creates: a writer queues
		// now.  sync.RWMutex then blocks new readers, i.e. the call below.
		go func() {
			m.mu.Lock()
			m.mu.Unlock()
		}()
		time.Sleep(2 * time.Millisecond) // let the writer reach the queue
	}
	perturb()
	m.mu.RLock()
	noteAcquired(m, false)
}

func (m *RWMutex) RUnlock() {
	if atomic.LoadInt32(&monitorOn) != 0 {
		noteRelease(m, false)
	}
	m.mu.RUnlock()
}

func (m *RWMutex) TryLock() bool {
	ok := m.mu.TryLock()
	if ok && atomic.LoadInt32(&monitorOn) != 0 {
		noteAcquired(m, true)
	}
	return ok
}

func (m *RWMutex) TryRLock() bool {
	ok := m.mu.TryRLock()
	if ok && atomic.LoadInt32(&monitorOn) != 0 {
		noteAcquired(m, false)
	}
	return ok
}

func (m *RWMutex) RLocker() sync.Locker { return (*rlocker)(m) }

type rlocker RWMutex

func (r *rlocker) Lock()   { (*RWMutex)(r).RLock() }
func (r *rlocker) Unlock() { (*RWMutex)(r).RUnlock() }

type Mutex struct {
	mu sync.Mutex
}

func (m *Mutex) Lock() {
	if atomic.LoadInt32(&monitorOn) == 0 {
		perturb()
		m.mu.Lock()
		return
	}
	noteAcquire(m, true)
	perturb()
	m.mu.Lock()
	noteAcquired(m, true)
}

func (m *Mutex) Unlock() {
	if atomic.LoadInt32(&monitorOn) != 0 {
		noteRelease(m, true)
	}
	m.mu.Unlock()
}

func (m *Mutex) TryLock() bool {
	ok := m.mu.TryLock()
	if ok && atomic.LoadInt32(&monitorOn) != 0 {
		noteAcquired(m, true)
	}
	return ok
}

// ---------------------------------------------------------------- perturbation

// intensity 0..255: probability (x/256) that a perturbation point yields
var intensity int32

// SetIntensity is called by the harness before workers start.
func SetIntensity(x int) { atomic.StoreInt32(&intensity, int32(x)) }

func perturb() {
	x := atomic.LoadInt32(&intensity)
	if x == 0 {
		return
	}
	r := rand.Int31n(512) // lock-free per-thread source (Go >= 1.20 top-level functions)
	if r < x {
		runtime.Gosched()
	} else if r < x+x/4 {
		time.Sleep(time.Duration(1+r%20) * time.Microsecond)
	}
}

// Yield is inserted before fs call statements in the race build.  It performs
// no synchronisation between goroutines (only a read of a word written before
// the workers were started).
func Yield() { perturb() }
