#!/usr/bin/env python3
"""Regenerates /verif/MANIFEST.json from the table below (keeps it schema-valid)."""
import json
import os
import sys

VERIF = os.path.dirname(os.path.dirname(os.path.abspath(__file__)))

# id -> (level category, technique, level text, level note, design ref)
CHECKS = {
    "C01": ("exploration",
            "model-based stateful PBT (rapid): reference map model vs. all read paths after every op",
            "Generated operation sequences under generated configurations are executed against sod and a reference model; every read path is compared after every step, absent ids are looked up twice, uuids are checked for freshness/stability, and the directory is compared with the model through an independent walker. A pass means the refinement held on every generated history; it is a search, not a proof.",
            "Trusted: the reference model (harness/model.go), encoding/json as the definition of object equality, the input-domain restrictions listed in evidence.assumptions.",
            "DESIGN.md §4 C01"),
}

NOT_YET = {}


def main():
    props = [json.loads(l) for l in open(os.path.join(VERIF, "properties.jsonl"))]
    checks = []
    na = []
    for p in props:
        pid = p["id"]
        if pid in CHECKS:
            cat, tech, text, note, ref = CHECKS[pid]
            checks.append({
                "property_id": pid,
                "quick_cmd": "./check %s quick" % pid,
                "thorough_cmd": "./check %s thorough" % pid,
                "evidence_file": "/verif/evidence/%s.json" % pid,
                "replay_cmd_template": "./check --replay {path}",
                "engine": "harness",
                "level_claimed": {"category": cat, "text": text, "design_ref": ref},
                "level_note": note,
                "technique": tech,
            })
        else:
            na.append({"property_id": pid, "reason": NOT_YET.get(pid, "check under construction in this session; not claimed until it runs silently on the unchanged tree")})
    m = {
        "version": 1,
        "setup_cmd": "./check --setup",
        "hooks": {
            "guard": "verif",
            "enable": "none needed: checks copy /repo's working tree to a scratch directory and redirect os/ioutil/time/sync call sites of the copy to /verif/tools/vshim with /verif/tools/rewrite; no file in /repo carries the guard",
            "baseline_off_cmd": "cd /repo && GOFLAGS=-mod=mod go test -vet=off -count=1 -timeout 25m ./...",
            "source_commits": [],
            "add_only": True,
        },
        "engines": [
            {"name": "harness", "path": "/verif/harness", "serves_properties": sorted(CHECKS),
             "kind_free_text": "Go test binary (pgregory.net/rapid v1.3.0 stateful generation + shrinking, native go fuzzing in the thorough tier, porcupine as linearizability oracle) built by ./check against a scratch copy of /repo's working tree; reference model, independent directory walker, fs/clock/lock shim"},
        ],
        "checks": checks,
        "not_applicable": na,
        "notes": "Every check: ./check <ID> quick|thorough (env VERIF_SEED). Exit 0 held / 1 VIOLATION / 2 inconclusive (build failure of the copy, time cap). Known findings: /verif/KNOWN_FINDINGS.txt.",
    }
    with open(os.path.join(VERIF, "MANIFEST.json"), "w") as f:
        json.dump(m, f, indent=1)
        f.write("\n")
    try:
        import jsonschema
        jsonschema.validate(m, json.load(open("/root/.vp/MANIFEST.schema.json")))
        print("MANIFEST.json valid: %d checks, %d not applicable" % (len(checks), len(na)))
    except ImportError:
        print("jsonschema not available; written without validation")


if __name__ == "__main__":
    sys.exit(main())
