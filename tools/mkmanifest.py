#!/usr/bin/env python3
"""Regenerates /verif/MANIFEST.json from the table below (keeps it schema-valid)."""
import json
import os
import sys

VERIF = os.path.dirname(os.path.dirname(os.path.abspath(__file__)))

# id -> (level category, technique, level text, level note, design ref)
TRUST = "Trusted: the reference model and generators (harness/*.go), encoding/json as the definition of object equality, rapid's generators/shrinker, the input-domain restrictions listed in evidence.assumptions. A pass means the property held on every generated case; it is a search, not a proof."

def ex(tech, text, ref, cat="exploration", note=TRUST):
    return (cat, tech, text, note, ref)

CHECKS = {
    "C01": ex("model-based stateful PBT (rapid): reference map model vs. every read path after every op (receivers reused); sparsely encoded objects read through dirty receivers",
              "Generated operation sequences under generated configurations are executed against sod and a reference model; every read path is compared after every step, absent ids are looked up twice, uuids are checked for freshness/stability, and the directory is compared with the model through an independent walker.",
              "DESIGN.md §4 C01"),
    "C02": ex("model-based PBT: generated query chains + exhaustive-per-state search sweep vs. model predicate; metamorphic re-run with complemented index assignment; direct big-index property; sparsely encoded objects (omitempty, renamed members, omitted nil pointers)",
              "Every generated query (all operators, And/Or chains, indexed/unindexed/nested/through-nil paths, boundary and absent probes) and an automatic sweep over every stored value and its neighbours are compared as multisets with predicates evaluated on the model, after every op of a generated history; the same program is re-run with the index assignment complemented; a second property hammers one index with up to 200 keys.",
              "DESIGN.md §4 C02"),
    "C03": ex("model-based stateful PBT with tiny value domains: accept/reject iff oracle; plus a big-collection property (1000-1700 objects, generated deletion order) against a map model",
              "Histories on collections with 1-3 unique paths where conflicts are the norm; the model decides acceptance exactly (iff), including reuse of released values and behaviour after reopen; all read paths compared after every op. TestC03Mass repeats uniqueness (both directions), release and the sorted index on collections of more than a thousand objects deleted down to a few.",
              "DESIGN.md §4 C03"),
    "C04": ex("differential PBT: complete observation before Close vs. after Open (and vs. model), 64-bit/timestamp biased values",
              "Generated histories with Close+Open / abandon+Open at arbitrary positions; the full observation (objects, AssignIndex order, search sweep over all operators and neighbours, Control) of the old handle must equal that of the new handle and the model; later ops must behave as the model says.",
              "DESIGN.md §4 C04"),
    "C05": ex("fault enumeration over generated histories: every prefix of the recorded fs-mutation log (+ torn writes) materialised and reopened; oracle = independent decoding of files + model",
              "For each generated history the file-system mutations of a rewritten working-tree copy are recorded; EVERY cut (and three torn offsets per Write) is materialised and reopened; detection-or-harmless, Repair convergence, readability of every file, index/file agreement and per-object before/after atomicity are checked. Exhaustive per history over crash points, sampled over histories.",
              "DESIGN.md §4 C05", "fault_enumeration",
              TRUST + " Crash model: completed system calls persist in order (process crash), torn writes inside one Write only. The fs shim (tools/vshim) is trusted to record faithfully; two known findings are excluded by narrow predicates (KNOWN_FINDINGS.txt)."),
    "C06": ex("model-based PBT over rejected writes (every read path unchanged) + enumeration of every single storage-fault position of a generated target call",
              "Logical half: histories dominated by rejected calls (Validate, uniqueness, wrong type, unknown collection, NaN/Inf) with the complete observation compared with the unchanged model after every call. Storage half: for a generated history and target call EVERY fs-mutation position is failed once (EIO, optionally after a short write); afterwards either nothing changed or Control / the next load reports it and Repair converges.",
              "DESIGN.md §4 C06", "fault_enumeration",
              TRUST + " Single-fault model (one failing fs call per run). Two known findings excluded by predicate (KNOWN_FINDINGS.txt)."),
    "C07": ex("model-based PBT over generated batches and chunk sizes",
              "Batches mixing fresh objects, updates, the same object twice, duplicate uuids, wrong-type and invalid members and intra-batch conflicts at generated positions, for Many and Bulk with chunk sizes 0-5; (n, err) and the complete observation are compared with the model's all-or-nothing / whole-chunk semantics.",
              "DESIGN.md §4 C07"),
    "C08": ex("generated concurrent programs (general, contention, batchreaders, creators, readers, flushers classes) under the Go race detector + porcupine linearizability check of recorded histories against the reference model + final-consistency invariant",
              "Generated multi-goroutine programs over all public entry points run several times under different GOMAXPROCS with random yields at fs call sites in a -race build; any race report or crash is a violation; for the class of calls that are atomic observable pieces the recorded history (closed by a sequential sweep) must be linearizable w.r.t. the model (porcupine). Schedules are sampled.",
              "DESIGN.md §4 C08", "exploration",
              TRUST + " Trusted additionally: Go's race detector and porcupine v1.3.0. Interleavings are sampled; the race detector is order-insensitive for accesses that occur in the run."),
    "C09": ex("generated concurrent programs on a lock-instrumented copy: single-threaded lock-discipline monitor (confirmed by writer injection) + progress watchdog; workers also start on crash states and Bulk producers call the handle; storage that fails on every mutation from a generated point on (every call and Close must return)",
              "Every generated program (all entry points, all configurations, flusher running) is executed single-threaded under a lock monitor that flags re-entrant read acquisitions, self deadlocks and lock-order cycles deterministically, then concurrently with perturbation under a watchdog that declares a hang only when all workers sit in lock acquisitions on two samples.",
              "DESIGN.md §4 C09", "exploration",
              TRUST + " 'For every call path' is approximated dynamically: a nested acquisition on a path no generated program executes is missed (evidence lists the entry points executed)."),
    "C10": ex("model-based stateful PBT under a harness-owned virtual clock: visibility after every op, deadline-based disk oracle through an independent walker, second-handle differential after flush/Close, collections sharing one Schema value, age rule (no accepted write older than timeout + 2 steps off disk, whatever calls arrive), restart-with-corruption-and-Repair op; real-clock runs: async off/on back to back with thousands of writes pending, writers hammering their own objects under a constantly firing flusher (last accepted value must be on disk after Close), Close meeting a storage fault at every position and being retried; plus generated readers-vs-flusher liveness runs on a scaled clock",
              "time.Sleep of the working-tree copy is redirected to a virtual clock, so threshold/timeout driven flushes are stepped deterministically; liveness is checked as 'on disk by an explicit conservative virtual-time deadline'.",
              "DESIGN.md §4 C10", "exploration",
              TRUST + " Assumes the flusher measures time only through time.Sleep/After/Ticker."),
    "C11": ex("generated fault sets applied to generated databases; set-based oracle for detection (iff), file-content oracle after Repair; damage also under a live handle; two collections per handle",
              "After a generated history the directory is damaged from outside (files removed/added, index entries removed, schema removed, internal inconsistency); detection must match the set difference exactly (no false positives on healthy databases of any configuration), Repair must not touch object files and must make every read path equal predicates on decoded file contents.",
              "DESIGN.md §4 C11"),
    "C12": ex("differential PBT: one generated program under two independently drawn configurations, normalised traces compared line by line; plus the same differential on collections of about 9000 objects",
              "Includes Exist on fresh writes, spoilt queries (invalid pattern, mistyped probe, unknown operator/field) on empty and non-empty collections, and Control once nothing is pending.",
              "DESIGN.md §4 C12"),
    "C13": ex("model-based PBT on tie-heavy collections: key-sequence oracle for order, Reverse, Limit, One, AssignIndex",
              "The returned key sequence must equal the first min(limit, matches) keys of the model's sorted match set (tie order left free), results must be distinct members of the match set; AssignIndex is compared after every op.",
              "DESIGN.md §4 C13"),
    "C14": ex("PBT over generated object shapes (incl. containers nested in containers, zero values in interface slots) with reflection-driven mutation scripts, address-set disjointness and cold-handle file round trip; distinct types sharing one name; first reads of a cold handle mutated",
              "Caller objects are scrambled after storing, returned objects are scrambled after reading, successive reads must share no reachable pointer/slice/map, and a cached read must equal a cold read through the file.",
              "DESIGN.md §4 C14"),
    "C15": ex("model-based PBT with data-driven Transform/Validate hooks on all insertion entry points",
              "Validity depends on the transformed and case-canonicalised value; Validate records what it saw, which must equal what was stored; invalid objects must be absent from every read path.",
              "DESIGN.md §4 C15"),
    "C16": ex("model-based PBT over case-mapping strings (special-casing runes, long strings) on top-level/nested/behind-pointer/embedded paths, indexed or not, unique or not, through custom schemas and through struct tags",
              "Stored values, probes and uniqueness are all judged on strings.ToUpper/ToLower canonical forms; idempotence is checked on what the database returns.",
              "DESIGN.md §4 C16"),
    "C17": ex("PBT over (stored shape, current shape) pairs from a 18-member struct family + generated descriptor edits + generated settings switches on a live handle under the virtual clock",
              "Refusals must carry the predicted sentinel on every operation and leave the directory byte-identical; compatible Create is idempotent; cache/async switches at arbitrary points never lose or stale a write and never kill the process.",
              "DESIGN.md §4 C17", "exploration",
              TRUST + " The current-shape side is a finite hand-written family of 18 shapes (Go types are static)."),
    "C18": ex("independent directory walker/decoder on generated histories + golden corpus written by the pinned release (40 Doc directories + one directory of a struct of defined / container / interface field types), opened, extended and re-walked",
              "No sod code is used to judge the layout; 40 directories produced by the pinned release under 26 configurations must open with identical contents, search behaviour and constraints, and stay loadable after generated further writes.",
              "DESIGN.md §4 C18", "exploration",
              TRUST + " Trusted additionally: the golden corpus under /verif/golden (verified against the model by the walker when it was recorded)."),
    "C19": ex("structure-aware mutation of schema.json/object files + stray directory entries + hostile search argument triples, battery of API calls under recover() and a watchdog, scans must fail or cover the collection; schema.json replaced by special files (FIFO, directory, links); native go fuzzing in the thorough tier",
              "Any panic or hang is a violation; unevaluable searches must return no objects; with only stray entries added everything must still equal the model.",
              "DESIGN.md §4 C19"),
    "C20": ex("model-based PBT: search evaluated, generated writes placed relative to the result range, then consumed or refined (sibling/late And/Or derivations); snapshot-set oracle",
              "Collected uuids must be exactly the matches at evaluation time unless members were deleted (then an error or a duplicate-free subset); never an object that did not match.",
              "DESIGN.md §4 C20"),
}

NOT_YET = {}


def main():
    props = [json.loads(l) for l in open(os.path.join(VERIF, "properties.jsonl"))]
    checks = []
    na = []
    for p in props:
        pid = p["id"]
        if pid in CHECKS:
            cat, tech, text, note, ref = CHECKS[pid]
            checks.append({
                "property_id": pid,
                "quick_cmd": "./check %s quick" % pid,
                "thorough_cmd": "./check %s thorough" % pid,
                "evidence_file": "/verif/evidence/%s.json" % pid,
                "replay_cmd_template": "./check --replay {path}",
                "engine": "harness",
                "level_claimed": {"category": cat, "text": text, "design_ref": ref},
                "level_note": note,
                "technique": tech,
            })
        else:
            na.append({"property_id": pid, "reason": NOT_YET.get(pid, "check under construction in this session; not claimed until it runs silently on the unchanged tree")})
    m = {
        "version": 1,
        "setup_cmd": "./check --setup",
        "hooks": {
            "guard": "verif",
            "enable": "none needed: checks copy /repo's working tree to a scratch directory and redirect os/ioutil/time/sync call sites of the copy to /verif/tools/vshim with /verif/tools/rewrite; no file in /repo carries the guard",
            "baseline_off_cmd": "cd /repo && GOFLAGS=-mod=mod go test -vet=off -count=1 -timeout 25m ./...",
            "source_commits": [],
            "add_only": True,
        },
        "engines": [
            {"name": "harness", "path": "/verif/harness", "serves_properties": sorted(CHECKS),
             "kind_free_text": "Go test binary (pgregory.net/rapid v1.3.0 stateful generation + shrinking, native go fuzzing in the thorough tier, porcupine as linearizability oracle) built by ./check against a scratch copy of /repo's working tree; reference model, independent directory walker, fs/clock/lock shim"},
        ],
        "checks": checks,
        "not_applicable": na,
        "notes": "Every check: ./check <ID> quick|thorough (env VERIF_SEED). Exit 0 held / 1 VIOLATION / 2 inconclusive (build failure of the copy, time cap). Known findings: /verif/KNOWN_FINDINGS.txt.",
    }
    with open(os.path.join(VERIF, "MANIFEST.json"), "w") as f:
        json.dump(m, f, indent=1)
        f.write("\n")
    try:
        import jsonschema
        jsonschema.validate(m, json.load(open("/root/.vp/MANIFEST.schema.json")))
        print("MANIFEST.json valid: %d checks, %d not applicable" % (len(checks), len(na)))
    except ImportError:
        print("jsonschema not available; written without validation")


if __name__ == "__main__":
    sys.exit(main())
