#!/usr/bin/env python3
"""Refreshes the 'detection' field of seeded/<id>/meta.json from seeded/<id>/check-results.txt."""
import glob, json, os, re
for d in sorted(glob.glob('/verif/seeded/*/')):
    mf = d + 'meta.json'
    if not os.path.exists(mf):
        continue
    meta = json.load(open(mf))
    res = []
    f = d + 'check-results.txt'
    if os.path.exists(f):
        for l in open(f):
            m = re.match(r'(C\d+) exit=(\d+) :: ?(.*)', l.strip())
            if m:
                res.append({'check': m.group(1), 'tier': 'quick', 'seed': 1, 'exit': int(m.group(2)), 'first_line': m.group(3)[:200]})
    meta['detection'] = res
    json.dump(meta, open(mf, 'w'), indent=1)
    print(meta['id'], ' '.join('%s:%d' % (r['check'], r['exit']) for r in res))
