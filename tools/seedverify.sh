#!/bin/bash
# usage: seedverify.sh <Cxx> <n>   verifies a sub-agent's seeded change in its scratch worktree /tmp/seed/<Cxx>
# (patch applies, builds, suite passes, demo fails with / passes without) and copies it to /verif/seeded/<Cxx>-<n>/
export GOFLAGS=-mod=mod GOPROXY=off GOSUMDB=off GOTOOLCHAIN=local
id=$1; n=$2; R=${SEEDROOT:-/tmp/seed}; SFX=${SEEDSFX:-}; wt=$R/$id; src=$wt/out/$n; log=$R/$id.verify$n.log
exec >$log 2>&1
cd $wt || exit 2
git checkout -q -- . ; rm -f zz_demo_test.go
[ -f $src/patch.diff ] || { echo "RESULT $id-$n no-patch"; exit 1; }
demo=$(ls $src/*_test.go 2>/dev/null | head -1)
[ -n "$demo" ] || { echo "RESULT $id-$n no-demo"; exit 1; }
git apply --check $src/patch.diff || { echo "RESULT $id-$n patch-does-not-apply"; exit 1; }
if git apply --numstat $src/patch.diff | awk '{print $3}' | grep -q '_test.go$'; then echo "RESULT $id-$n patch-touches-tests"; exit 1; fi
# unpatched: demo passes
cp $demo zz_demo_test.go
names=$(grep -o '^func Test[A-Za-z0-9_]*' zz_demo_test.go | sed 's/func //' | paste -sd'|')
go test -vet=off -count=1 -timeout 10m -run "^($names)\$" . >$R/$id.demo_unpatched$n.log 2>&1; up=$?
rm -f zz_demo_test.go
git apply $src/patch.diff
go build ./... || { echo "RESULT $id-$n does-not-build"; git checkout -q -- .; exit 1; }
go test -vet=off -count=1 -timeout 25m . >$R/$id.suite$n.log 2>&1; suite=$?
cp $demo zz_demo_test.go
go test -vet=off -count=1 -timeout 10m -run "^($names)\$" . >$R/$id.demo_patched$n.log 2>&1; pp=$?
rm -f zz_demo_test.go
git checkout -q -- . ; rm -rf data
echo "unpatched-demo-exit=$up suite-exit=$suite patched-demo-exit=$pp"
if [ $up -eq 0 ] && [ $suite -eq 0 ] && [ $pp -ne 0 ]; then
  d=/verif/seeded/$id-$SFX$n; mkdir -p $d
  cp $src/patch.diff $d/patch.diff; cp $demo $d/$(basename $demo); [ -f $src/notes.md ] && cp $src/notes.md $d/notes.md
  echo "RESULT $id-$SFX$n confirmed"
else
  echo "RESULT $id-$n REJECTED unpatched=$up suite=$suite patched=$pp"
fi
