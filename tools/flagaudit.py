#!/usr/bin/env python3
"""Lists coverage classes named in the harness source that no evidence file reports (a generator
feature whose flag never shows up is not exercised - e.g. a reference that is never drawn)."""
import glob, json, re, sys
src = ""
for f in glob.glob('/verif/harness/*.go'):
    src += open(f).read()
names = set(re.findall(r'(?:e\.flag|live\.flag|fresh\.flag)\("([a-z0-9A-Z\-_.^]+)"\)', src))
names |= set(re.findall(r'flags\["([a-z0-9A-Z\-_.^]+)"\]\s*=', src))
seen = {}
for f in glob.glob('/verif/evidence/*.json'):
    e = json.load(open(f))
    def walk(o):
        if isinstance(o, dict):
            for k, v in o.items():
                if isinstance(v, (int, float)) and not isinstance(v, bool):
                    seen[k] = seen.get(k, 0) + v
                walk(v)
        elif isinstance(o, list):
            for v in o:
                walk(v)
    walk(e)
missing = sorted(n for n in names if seen.get(n, 0) == 0)
print("%d flag names in the source, %d never reported by evidence/*.json:" % (len(names), len(missing)))
for n in missing:
    print("  ", n)
