#!/bin/bash
# usage: tools/mutcheck.sh <patch file | -R<commit>> <PROP>... 
# Applies a patch (or the reverse of a fix commit) to /repo's working tree, runs the
# quick check of each property, and restores the tree. Never commits anything.
set -u
what="$1"; shift
case "$what" in -R*) ;; /*) ;; *) what="$PWD/$what";; esac
cd /repo || exit 2
if [ -n "$(git status --porcelain --untracked-files=no)" ]; then echo "repo working tree not clean"; exit 2; fi
if [[ "$what" == -R* ]]; then
  git show "${what#-R}" | git apply -R - || { echo "cannot reverse-apply ${what#-R}"; git checkout -- .; exit 2; }
else
  git apply "$what" || { echo "cannot apply $what"; git checkout -- .; exit 2; }
fi
trap 'git -C /repo checkout -- . ; git -C /repo clean -fdq -- . 2>/dev/null' EXIT
cd /verif
for p in "$@"; do
  out=$(VERIF_NOSAVE=1 ./check "$p" ${TIER:-quick} 2>&1)
  rc=$?
  echo "== $what $p exit=$rc $(echo "$out" | grep -c '^VIOLATION') violation line(s)"
  echo "$out" | grep -A3 '^VIOLATION' | cut -c1-260 | head -8
  echo "$out" | grep '^INCONCLUSIVE' | head -2 | cut -c1-300
done
