module verif/harness

go 1.21

require (
	github.com/0xrawsec/sod v0.0.0
	github.com/anishathalye/porcupine v1.3.0
	pgregory.net/rapid v1.3.0
)

replace github.com/0xrawsec/sod => ../.work/sod
