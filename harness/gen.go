package props

import (
	"fmt"
	"math"
	"regexp"
	"runtime/debug"
	"strings"
	"time"
	"unicode"

	"pgregory.net/rapid"
)

func stack() string { return string(debug.Stack()) }

func isRapidPanic(r interface{}) bool {
	n := fmt.Sprintf("%T", r)
	return n == "rapid.stopTest" || n == "rapid.invalidData"
}

func reflectNextAfter(f float64, dir int) float64 {
	if dir < 0 {
		return math.Nextafter(f, math.Inf(-1))
	}
	return math.Nextafter(f, math.Inf(1))
}

// ---------------------------------------------------------------- generator state

// Profile biases program generation per property.
type Profile struct {
	Property string
	MaxOps   int
	// weights of op kinds (0 = never)
	W map[string]int
	// configuration space
	AllowAsync, AllowCache, AllowCompress, AllowLower bool
	ForceAsync                                        bool
	ForceSync                                         bool
	MaxIndexed, MaxUnique                             int
	MinIndexed, MinUnique                             int
	CasePaths                                         int // how many string paths may get upper/lower
	// candidate paths for constraints (default: all castable)
	ConsPaths []string
	// value generation
	TinyBias  int // 0..100: percentage of values drawn from the tiny domain
	BigBias   int // percentage drawn from extremes / beyond 2^53
	HookBias  int // percentage of docs with active Transform/Validate hooks
	RichShape int // percentage of docs with containers/pointers filled
	// queries
	MaxLeaves      int
	LimitPct       int // percentage of queries with a limit (default 35)
	IndexedLastPct int // percentage of queries forced to end on an indexed path
	AndOnlyPct     int // percentage of chains that use And only
	BadQueryPct    int // percentage of queries made unevaluable on purpose
	// the program starts with one Bulk (chunk size 1: stops at the first conflicting
	// member) of up to SeedBatch fresh documents, so queries meet a populated collection
	SeedBatch int
	// no two distinct batch members with one uuid (C05/C06: the per-object
	// before/after oracle would need the intermediate member values)
	NoCopyItems  bool
	WordShiftPct int  // percentage of programs with an update moving a word between two indexed string fields
	NaNProbePct  int  // percentage of query ops whose probe is a float NaN (not judged, only traced)
	NoHugeStr    bool // no strings of several KiB (checks whose cost grows with object size)
	FixedCfg     *Config
}

// G carries the pools of values already used in the case, so that later ops
// can collide with / neighbour earlier ones.
type G struct {
	t    *rapid.T
	p    *Profile
	cfg  Config
	ints []int64
	uns  []uint64
	fls  []float64
	strs []string
	tms  []time.Time
	seq  int
}

var (
	tinyInts   = []int64{0, 1, 2, 3, -1}
	tinyUints  = []uint64{0, 1, 2, 3}
	tinyFloats = []float64{0, 1, 0.5, 2, -1, math.Copysign(0, -1)}
	tinyStrs   = []string{"", "a", "b", "A", "ab", "Ab", "aB", "B", "s", "ſ", "\u212a"} // (s, long s and the Kelvin sign: one folding orbit each with S / k)
	caseStrs   = []string{"ß", "ı", "İ", "ǅ", "ς", "ſ", "K", "Σ", "straße", "ǆ", "é", "É", "ÿ", "Ÿ", "ⅰ", "Ⅰ", "aßc", "İi",
		// long ones (implementations may treat long strings differently, e.g. memoise conversions)
		"The Quick Brown Fox Jumps Over The Lazy Dog 0123456789", "the quick brown fox jumps over the lazy dog 0123456789",
		"Η Γρήγορη Καφέ Αλεπού Πηδά Πάνω Από Τον Τεμπέλη Σκύλο",
		// bytes every JSON encoder has to escape (and Go string syntax escapes differently)
		"a\x1fb", "tab\there", "\x00", "\x7f", "line\nbreak", "\u2028x", "quote\"back\\slash", "<b>&amp;</b>", "\u00a0"}
	bigInts   = []int64{math.MaxInt64, math.MinInt64, 1 << 53, 1<<53 + 1, 1<<53 - 1, -(1 << 53) - 1, math.MaxInt64 - 1, math.MinInt64 + 1, 1 << 62, 1577836800123456789}
	bigUints  = []uint64{math.MaxUint64, math.MaxUint64 - 1, 1 << 53, 1<<53 + 1, 1 << 63, 1<<63 + 1, math.MaxInt64}
	bigFloats = []float64{math.MaxFloat64, -math.MaxFloat64, math.SmallestNonzeroFloat64, 1 << 53, 1<<53 + 2, math.Copysign(0, -1), 1e21, 1e-7, 0.1, 1.0 / 3}
	baseTime  = time.Date(2021, 3, 4, 5, 6, 7, 123456789, time.UTC)
	zones     = []*time.Location{time.UTC, time.FixedZone("", 2*3600), time.FixedZone("", -(5*3600 + 1800))}
	minTime   = time.Date(1760, 1, 1, 0, 0, 0, 0, time.UTC)
	maxTime   = time.Date(2261, 1, 1, 0, 0, 0, 0, time.UTC)
)

// rapid's integer and SampledFrom generators are deliberately biased towards
// small values; structural choices (which op, which path, probabilities) need
// a uniform source, built here from unbiased single bits.
func (g *G) uni(n int, label string) int {
	if n <= 1 {
		return 0
	}
	bits := 0
	for (1 << bits) < n {
		bits++
	}
	return rapid.Custom(func(t *rapid.T) int {
		for try := 0; try < 4; try++ {
			v := 0
			for i := 0; i < bits; i++ {
				v <<= 1
				if rapid.Bool().Draw(t, "bit") {
					v |= 1
				}
			}
			if v < n {
				return v
			}
		}
		return 0
	}).Draw(g.t, label)
}

func (g *G) pct(label string) int { return g.uni(100, label) }

func pickU[T any](g *G, xs []T, label string) T { return xs[g.uni(len(xs), label)] }

func (g *G) source() int {
	// 0 tiny, 1 pool/neighbour, 2 big, 3 free
	x := g.pct("src")
	switch {
	case x < g.p.TinyBias:
		return 0
	case x < g.p.TinyBias+20:
		return 1
	case x < g.p.TinyBias+20+g.p.BigBias:
		return 2
	}
	return 3
}

func (g *G) Int(bits int) int64 {
	var v int64
	switch g.source() {
	case 0:
		v = pickU(g, tinyInts, "tinyint")
	case 1:
		if len(g.ints) > 0 {
			v = pickU(g, g.ints, "poolint")
			d := rapid.IntRange(-1, 1).Draw(g.t, "delta")
			if (d > 0 && v < math.MaxInt64) || (d < 0 && v > math.MinInt64) {
				v += int64(d)
			}
		} else {
			v = pickU(g, tinyInts, "tinyint")
		}
	case 2:
		if bits == 64 {
			v = pickU(g, bigInts, "bigint")
		} else {
			v = rapid.SampledFrom([]int64{int64(1)<<(bits-1) - 1, -(int64(1) << (bits - 1)), int64(1)<<(bits-1) - 2}).Draw(g.t, "edgeint")
		}
	default:
		v = rapid.Int64().Draw(g.t, "int")
	}
	v = clampInt(v, bits)
	g.ints = append(g.ints, v)
	return v
}

func (g *G) Uint(bits int) uint64 {
	var v uint64
	switch g.source() {
	case 0:
		v = pickU(g, tinyUints, "tinyuint")
	case 1:
		if len(g.uns) > 0 {
			v = pickU(g, g.uns, "pooluint")
			d := rapid.IntRange(-1, 1).Draw(g.t, "delta")
			if d > 0 && v < math.MaxUint64 {
				v++
			} else if d < 0 && v > 0 {
				v--
			}
		} else {
			v = pickU(g, tinyUints, "tinyuint")
		}
	case 2:
		if bits == 64 {
			v = pickU(g, bigUints, "biguint")
		} else {
			v = uint64(1)<<bits - 1 - uint64(rapid.IntRange(0, 1).Draw(g.t, "edge"))
		}
	default:
		v = rapid.Uint64().Draw(g.t, "uint")
	}
	v = clampUint(v, bits)
	g.uns = append(g.uns, v)
	return v
}

func finite(f float64) float64 {
	if math.IsNaN(f) || math.IsInf(f, 0) {
		return 0
	}
	return f
}

func (g *G) Float(bits int) float64 {
	var v float64
	switch g.source() {
	case 0:
		v = pickU(g, tinyFloats, "tinyfloat")
	case 1:
		if len(g.fls) > 0 {
			v = pickU(g, g.fls, "poolfloat")
			switch rapid.IntRange(-1, 1).Draw(g.t, "delta") {
			case 1:
				v = finite(math.Nextafter(v, math.Inf(1)))
			case -1:
				v = finite(math.Nextafter(v, math.Inf(-1)))
			}
		} else {
			v = pickU(g, tinyFloats, "tinyfloat")
		}
	case 2:
		v = pickU(g, bigFloats, "bigfloat")
	default:
		v = finite(rapid.Float64().Draw(g.t, "float"))
	}
	if bits == 32 {
		v = finite(float64(float32(v)))
	}
	g.fls = append(g.fls, v)
	return v
}

var strGen = rapid.StringOfN(rapid.RuneFrom(nil, unicodeLetters...), 0, 6, -1)

// hugeStr: values around the usual buffer sizes (4 KiB, 8 KiB, 32 KiB, 64 KiB)
func (g *G) hugeStr() string {
	n := pickU(g, []int{4095, 4096, 4097, 4097, 8200, 8200, 32769, 70000}, "hugelen")
	unit := pickU(g, []string{"a", "xy ", "ß", "\"q\""}, "hugeunit")
	return strings.Repeat(unit, n/len(unit)+1)[:n/len(unit)*len(unit)]
}

func (g *G) Str() string {
	var v string
	if !g.p.NoHugeStr && rapid.IntRange(0, 399).Draw(g.t, "huge") == 399 { // (shrinking moves away from it)
		v = g.hugeStr()
		g.strs = append(g.strs, v)
		return v
	}
	switch g.source() {
	case 0:
		v = pickU(g, tinyStrs, "tinystr")
	case 1:
		if len(g.strs) > 0 {
			v = pickU(g, g.strs, "poolstr")
			switch rapid.IntRange(0, 3).Draw(g.t, "strmod") {
			case 1:
				v += "a"
			case 2:
				v = swapCase(v)
			case 3:
				if len(v) > 0 {
					r := []rune(v)
					v = string(r[:len(r)-1])
				}
			}
		} else {
			v = pickU(g, tinyStrs, "tinystr")
		}
	case 2:
		v = pickU(g, caseStrs, "casestr")
	default:
		if g.pct("strkind") < 50 {
			v = strGen.Draw(g.t, "str")
		} else {
			v = toValid(rapid.String().Draw(g.t, "anystr"))
		}
	}
	g.strs = append(g.strs, v)
	return v
}

func (g *G) Time() time.Time {
	var v time.Time
	switch g.source() {
	case 0:
		v = baseTime.Add(time.Duration(g.uni(5, "tinytime") - 2))
	case 1:
		if len(g.tms) > 0 {
			v = pickU(g, g.tms, "pooltime").Add(time.Duration(rapid.IntRange(-1, 1).Draw(g.t, "delta")))
		} else {
			v = baseTime
		}
	case 2:
		v = rapid.SampledFrom([]time.Time{minTime, maxTime, time.Unix(0, 0), time.Unix(0, 1<<53+1), time.Unix(0, -(1<<53)-1)}).Draw(g.t, "edgetime")
	default:
		ns := rapid.Int64Range(minTime.UnixNano(), maxTime.UnixNano()).Draw(g.t, "time")
		v = time.Unix(0, ns)
	}
	if v.Before(minTime) {
		v = minTime
	}
	if v.After(maxTime) {
		v = maxTime
	}
	v = v.In(pickU(g, zones, "zone"))
	g.tms = append(g.tms, v)
	return v
}

// Val draws a value of the class of path p.
func (g *G) Val(p PathInfo) Val {
	narrow := g.pct("narrow") < 25
	switch p.Class {
	case ClsInt:
		if p.Time {
			return Val{K: "t", T: g.Time()}
		}
		return Val{K: "i", I: g.Int(p.Bits), Narrow: narrow}
	case ClsUint:
		return Val{K: "u", U: g.Uint(p.Bits), Narrow: narrow}
	case ClsFloat:
		return Val{K: "f", F: g.Float(p.Bits), Narrow: narrow}
	}
	return Val{K: "s", S: g.Str()}
}

// Probe draws a search value for path p: like Val, but not clamped to the
// field's width (probes outside the field's range are well typed as well).
func (g *G) Probe(p PathInfo) Val {
	q := p
	if !p.Time && p.Class != ClsStr && g.pct("wide") < 30 {
		q.Bits = 64
	}
	return g.Val(q)
}

// ---------------------------------------------------------------- documents

func (g *G) inner() *Inner {
	return &Inner{S: g.Str(), N: g.Int(64), F: g.Float(64), T: g.Time(), U: uint16(g.Uint(16))}
}

func (g *G) anyVal(depth int) interface{} {
	switch rapid.IntRange(0, 6).Draw(g.t, "anykind") {
	case 0:
		return nil
	case 1:
		return g.Str()
	case 2:
		return float64(rapid.IntRange(-1000, 1000).Draw(g.t, "anynum"))
	case 3:
		return g.pct("anybool") < 50
	case 4:
		if depth > 1 {
			return nil
		}
		n := rapid.IntRange(0, 2).Draw(g.t, "anymaplen")
		m := map[string]interface{}{}
		for i := 0; i < n; i++ {
			m[rapid.SampledFrom([]string{"k", "l", "m"}).Draw(g.t, "anykey")] = g.anyVal(depth + 1)
		}
		return m
	case 5:
		if depth > 1 {
			return nil
		}
		n := rapid.IntRange(0, 2).Draw(g.t, "anyslicelen")
		s := make([]interface{}, 0, n)
		for i := 0; i < n; i++ {
			s = append(s, g.anyVal(depth+1))
		}
		return s
	}
	return 0.5
}

// Doc draws a document.  Only searchable scalars are always drawn; containers
// and pointers are filled with probability RichShape.
func (g *G) Doc() *Doc {
	d := &Doc{}
	g.seq++
	// scalars that participate in constraints or queries get values from the
	// biased sources; the rest stay mostly zero to keep cases small
	for _, p := range castable {
		relevant := g.cfg.Cons[p.Path] != (Cons{}) || p.Path == "S" || p.Path == "I64"
		if throughPt(p.Path) || p.Path[0] == 'H' {
			continue
		}
		if relevant || g.pct("fill") < 15 {
			setLeaf(d, p, g.Val(p))
		}
	}
	if g.pct("pt") < 40 || g.anyPtCons() && g.pct("pt2") < 60 {
		d.Pt = g.inner()
	}
	if g.pct("rich") < g.p.RichShape {
		if g.pct("pi") < 50 {
			x := int(g.Int(32))
			d.PI = &x
		}
		if g.pct("ppi") < 40 {
			x := int(g.Int(32))
			px := &x
			d.PPI = &px
		}
		switch rapid.IntRange(0, 2).Draw(g.t, "sl") {
		case 1:
			d.Sl = []string{}
		case 2:
			d.Sl = []string{g.Str(), g.Str()}
		}
		switch rapid.IntRange(0, 3).Draw(g.t, "slp") {
		case 1:
			d.SlP = []*Inner{}
		case 2:
			d.SlP = []*Inner{g.inner(), nil}
		case 3:
			// one target referenced several times (C14 hands the database one shared pointer)
			in := g.inner()
			cp := *in
			d.SlP = []*Inner{in, nil, &cp}
			if d.Pt != nil && g.pct("ptshared") < 50 {
				cp2 := *in
				d.Pt = &cp2
			}
		}
		switch rapid.IntRange(0, 2).Draw(g.t, "m") {
		case 1:
			d.M = map[string]int{}
		case 2:
			d.M = map[string]int{g.Str(): int(g.Int(32)), "k": 1}
		}
		switch rapid.IntRange(0, 2).Draw(g.t, "mi") {
		case 1:
			d.MI = map[int]string{}
		case 2:
			d.MI = map[int]string{int(g.Int(16)): g.Str()}
		}
		switch rapid.IntRange(0, 2).Draw(g.t, "ms") {
		case 1:
			d.MS = map[string][]*Inner{}
		case 2:
			d.MS = map[string][]*Inner{"x": {g.inner()}, "y": nil, "z": {}}
		}
		d.Any = g.anyVal(0)
		d.B = g.pct("b") < 50
		d.Arr = [3]int{int(g.Int(32)), 0, int(g.Int(8))}
	}
	if (g.cfg.Cons["Any"] != Cons{}) && g.pct("anystr") < 70 {
		d.Any = pickU(g, append(append([]string{}, tinyStrs...), caseStrs[:18]...), "anystrv")
	}
	if g.pct("hook") < g.p.HookBias {
		switch rapid.IntRange(0, 3).Draw(g.t, "hookkind") {
		case 0:
			d.H.Append = rapid.SampledFrom([]string{"x", "Y", "ß"}).Draw(g.t, "append")
		case 1:
			d.H.Bump = true
		case 2:
			d.H.RejectS = rapid.SampledFrom([]string{"A", "a", "AB", "ab", "ax", "AX", "b"}).Draw(g.t, "rejects")
			// often aim at what S becomes after Transform and case canonicalisation, so that
			// validity really depends on the transformed value
			if g.pct("aim") < 60 {
				target := d.S
				if g.pct("aimappend") < 50 {
					d.H.Append = pickU(g, []string{"x", "Y"}, "aimappendv")
					target += d.H.Append
				}
				switch g.uni(3, "aimcase") {
				case 0:
					target = strings.ToUpper(target)
				case 1:
					target = strings.ToLower(target)
				}
				if target != "" {
					d.H.RejectS = target
				}
			}
		case 3:
			d.H.RejectLen = rapid.IntRange(1, 4).Draw(g.t, "rejectlen")
		}
		if g.pct("hook2") < 40 {
			d.H.Append = rapid.SampledFrom([]string{"x", "Y"}).Draw(g.t, "append2")
		}
	}
	return d
}

func throughPt(path string) bool { return len(path) > 3 && path[:3] == "Pt." }

func (g *G) anyPtCons() bool {
	for p := range g.cfg.Cons {
		if throughPt(p) {
			return true
		}
	}
	return false
}

// ---------------------------------------------------------------- configuration

func (g *G) Config() Config {
	p := g.p
	if p.FixedCfg != nil {
		return *p.FixedCfg
	}
	c := Config{Ext: ".json", Cons: map[string]Cons{}}
	if p.AllowCache {
		c.Cache = g.pct("cache") < 50
	}
	if p.AllowCompress {
		c.Compress = g.pct("compress") < 35
	}
	if p.AllowLower {
		c.Lower = g.pct("lowernames") < 25
	}
	if (p.AllowAsync && g.pct("async") < 35) || p.ForceAsync {
		c.Async = &AsyncCfg{Threshold: rapid.IntRange(1, 8).Draw(g.t, "threshold"), TimeoutMs: 100 * rapid.IntRange(1, 20).Draw(g.t, "timeout")}
	}
	if p.ForceSync {
		c.Async = nil
	}
	if g.pct("ext") < 30 {
		// (the empty extension is legal: object files are then named by their uuid alone)
		c.Ext = rapid.SampledFrom([]string{".obj", ".j", ".data.v1", ".x1", "", "", ".tmp", ".v2.tmp"}).Draw(g.t, "ext")
	}
	if c.Compress && g.pct("gzext") < 12 {
		// an extension that itself ends in .gz is fine as long as compression is on
		// (the pinned release then writes <uuid>.json.gz.gz)
		c.Ext = ".json.gz"
	}
	cands := castable
	if len(p.ConsPaths) > 0 {
		cands = nil
		for _, n := range p.ConsPaths {
			cands = append(cands, docPathIndex[n])
		}
	}
	nIdx := p.MinIndexed + g.uni(p.MaxIndexed-p.MinIndexed+1, "nindexed")
	for i := 0; i < nIdx; i++ {
		pi := pickU(g, cands, "indexedpath")
		k := c.Cons[pi.Path]
		k.Index = true
		c.Cons[pi.Path] = k
	}
	nUni := p.MinUnique + g.uni(p.MaxUnique-p.MinUnique+1, "nunique")
	for i := 0; i < nUni; i++ {
		pi := pickU(g, cands, "uniquepath")
		k := c.Cons[pi.Path]
		k.Unique = true
		k.Index = g.pct("uniqueindex") < 80
		c.Cons[pi.Path] = k
	}
	for i := 0; i < p.CasePaths; i++ {
		var sp []PathInfo
		for _, x := range cands {
			if x.Class == ClsStr {
				sp = append(sp, x)
			}
		}
		if len(sp) == 0 {
			sp = stringPaths
		}
		pi := pickU(g, sp, "casepath")
		k := c.Cons[pi.Path]
		switch rapid.IntRange(0, 4).Draw(g.t, "casekind") {
		case 0, 1:
			k.Upper = true
		case 2, 3:
			k.Lower = true
		case 4:
			k.Upper, k.Lower = true, true
		}
		c.Cons[pi.Path] = k
	}
	// an interface{} field that holds a string is case-canonicalised as well
	if p.CasePaths > 0 && g.pct("caseany") < 15 {
		if g.pct("caseanyup") < 50 {
			c.Cons["Any"] = Cons{Upper: true}
		} else {
			c.Cons["Any"] = Cons{Lower: true}
		}
	}
	return c
}

// ---------------------------------------------------------------- queries

var allOps = []string{"=", "!=", "<", "<=", ">", ">=", "~="}

func (g *G) queryPaths() []PathInfo {
	// favour constrained paths, but unindexed ones must be frequent as well
	var out []PathInfo
	for _, p := range castable {
		if g.cfg.Cons[p.Path] != (Cons{}) {
			out = append(out, p, p, p)
		}
	}
	out = append(out, docPathIndex["S"], docPathIndex["I64"], docPathIndex["In.N"], docPathIndex["Pt.S"], docPathIndex["Emb.ES"], docPathIndex["U8"], docPathIndex["F64"], docPathIndex["T"], docPathIndex["Pt.T"])
	return out
}

func (g *G) Leaf(conn string) Leaf {
	p := pickU(g, g.queryPaths(), "qpath")
	op := pickU(g, allOps, "qop")
	if op == "~=" && p.Class != ClsStr {
		op = "="
	}
	v := g.Probe(p)
	if op == "~=" {
		v = Val{K: "s", S: g.regex()}
	}
	return Leaf{Conn: conn, Path: p.Path, Op: op, V: v}
}

// regex: half of the time a fixed pattern, otherwise one built from a small grammar (anchors,
// literals, classes, groups, alternation, counted and uncounted repetition) - always valid RE2.
func (g *G) regex() string {
	if len(g.strs) > 0 && g.pct("regexfold") < 25 {
		// a case-insensitive literal spelled with the OTHER members of each rune's folding orbit
		// (s-ſ-S, k-K-K, σ-ς-Σ ...) of a value used before: (?i) must equate them
		v := pickU(g, g.strs, "regexfoldv")
		if r := []rune(v); len(r) > 0 && len(r) <= 12 {
			for i := range r {
				r[i] = unicode.SimpleFold(r[i])
			}
			return "(?i)" + regexp.QuoteMeta(string(r))
		}
	}
	if g.pct("regexfixed") < 45 {
		return pickU(g, []string{"a", "^a", "b$", ".*", "^$", "[aA]", "A+", "a|b", "^(a|A)b?$", "x",
			// case-insensitive literals whose folding is not what ToLower / ToUpper do (s-ſ, k-K, σ-ς, i-İ-ı)
			"(?i)s", "(?i)k", "(?i)σ", "(?i)i", "(?i:ss)", "(?i)strasse", "(?i)a"}, "regex")
	}
	out := ""
	if g.pct("regexfold") < 10 {
		out = "(?i)"
	}
	if g.pct("regexhat") < 60 {
		out += "^"
	}
	for i, n := 0, 1+g.uni(3, "regexn"); i < n; i++ {
		out += pickU(g, []string{"a", "b", "A", "B", "a", "b", ".", "[ab]", "(ab)", "(a|b)", "x", "ß", "s", "k", "σ", "i", "µ"}, "regexatom")
		out += pickU(g, []string{"", "", "", "*", "?", "+", "{0,2}", "{0}", "{1,2}", "{2}", "*?"}, "regexquant")
	}
	if g.pct("regexdollar") < 40 {
		out += "$"
	}
	return out
}

func (g *G) Query() *Query {
	q := &Query{}
	n := 1
	if g.p.MaxLeaves > 1 {
		n = 1 + g.uni(g.p.MaxLeaves, "nleaves")
	}
	for i := 0; i < n; i++ {
		conn := ""
		if i > 0 {
			conn = pickU(g, []string{"and", "and", "or"}, "conn")
		}
		q.Leaves = append(q.Leaves, g.Leaf(conn))
	}
	lp := g.p.LimitPct
	if lp == 0 {
		lp = 35
	}
	andOnly := g.pct("andonly") < g.p.AndOnlyPct
	if andOnly {
		for i := range q.Leaves {
			if i > 0 {
				q.Leaves[i].Conn = "and"
			}
		}
	}
	if ip := g.cfg.IndexedPaths(); len(ip) > 0 && g.pct("indexedlast") < g.p.IndexedLastPct {
		p := pickU(g, ip, "lastpath")
		last := &q.Leaves[len(q.Leaves)-1]
		last.Path = p.Path
		if last.Op == "~=" && p.Class != ClsStr {
			last.Op = "!="
		}
		if last.Op != "~=" {
			last.V = g.Probe(p)
			if g.pct("wideop") < 50 {
				last.Op = pickU(g, []string{"!=", "<=", ">=", ">", "<"}, "wideopv")
			}
		}
	}
	if g.pct("limit") < lp {
		l := uint64(pickU(g, []int{0, 1, 2, 3, 5, 100}, "limitv"))
		if g.pct("maxlimit") < 10 {
			l = math.MaxUint64
		}
		q.Limit = &l
	}
	q.Reverse = g.pct("reverse") < 30
	q.Consumer = pickU(g, []string{"collect", "collect", "collect", "assign", "assign", "one", "assignone", "expects", "expectszn", "assignunique"}, "consumer")
	if q.Consumer == "expects" || q.Consumer == "expectszn" {
		q.Expect = pickU(g, []int{0, 0, 1, -1, 1000}, "expectdelta")
	}
	for i := 1; i < len(q.Leaves); i++ {
		if g.pct("via") < 25 {
			if q.Leaves[i].Conn == "or" {
				q.Leaves[i].Via = pickU(g, []string{"or", "||", "OR", "Or"}, "viaor")
			} else {
				q.Leaves[i].Via = pickU(g, []string{"and", "&&", "AND", "And"}, "viaand")
			}
		}
	}
	return q
}

// ---------------------------------------------------------------- ops

func (g *G) Sets() []FieldSet {
	n := rapid.IntRange(1, 3).Draw(g.t, "nsets")
	var out []FieldSet
	var cands []PathInfo
	for _, p := range castable {
		if g.cfg.Cons[p.Path] != (Cons{}) && p.Path[0] != 'H' {
			cands = append(cands, p, p)
		}
	}
	cands = append(cands, docPathIndex["S"], docPathIndex["I64"], docPathIndex["Pt.N"])
	for i := 0; i < n; i++ {
		p := pickU(g, cands, "setpath")
		out = append(out, FieldSet{Path: p.Path, V: g.Val(p)})
	}
	return out
}

func (g *G) Items(max int) []BatchItem {
	n := g.uni(max+1, "nitems")
	kinds := []string{"new", "new", "new", "upd", "upd", "same", "copy", "newuuid"}
	if g.p.NoCopyItems {
		kinds = []string{"new", "new", "new", "upd", "upd", "same", "newuuid"}
	}
	if g.pct("other") < 12 {
		kinds = append(kinds, "other", "otheruuid")
	}
	var out []BatchItem
	for i := 0; i < n; i++ {
		it := BatchItem{Kind: pickU(g, kinds, "itemkind")}
		switch it.Kind {
		case "new":
			it.D = g.Doc()
		case "newuuid":
			it.D = g.Doc()
			it.Seed = uint64(rapid.IntRange(1, 6).Draw(g.t, "seed"))
		case "upd":
			it.Ref = g.uni(64, "ref")
			it.Sets = g.Sets()
		case "same":
			it.Prev = g.uni(64, "prev")
		case "copy":
			it.Prev = g.uni(64, "prev")
			it.Sets = g.Sets()
			it.D = g.Doc()
		case "otheruuid":
			it.Seed = uint64(rapid.IntRange(1, 3).Draw(g.t, "seed"))
		}
		out = append(out, it)
	}
	return out
}

func (g *G) Op() Op {
	var kinds []string
	for k, w := range g.p.W {
		for i := 0; i < w; i++ {
			kinds = append(kinds, k)
		}
	}
	sortStrings(kinds)
	kind := pickU(g, kinds, "op")
	op := Op{Op: kind}
	switch kind {
	case "insert":
		op.D = g.Doc()
	case "upsertUUID":
		op.D = g.Doc()
		op.Seed = uint64(rapid.IntRange(1, 6).Draw(g.t, "seed"))
		op.Ref = g.uni(64, "ref")
	case "update":
		op.Ref = g.uni(64, "ref")
		if g.pct("replace") < 25 {
			op.D = g.Doc()
		} else {
			op.Sets = g.Sets()
		}
	case "resave", "delete", "deleteAbsent", "flushOne":
		op.Ref = g.uni(64, "ref")
	case "resurrect":
		op.Ref = g.uni(64, "ref")
		if g.pct("resets") < 40 {
			op.Sets = g.Sets()
		}
	case "many":
		op.Items = g.Items(6)
	case "bulk":
		op.Items = g.Items(8)
		op.CSize = g.uni(6, "csize")
	case "deleteAll":
		op.Ref = g.uni(64, "ref")
	case "searchDelete":
		q := g.Query()
		q.Limit, q.Reverse, q.Consumer = nil, false, ""
		op.Q = q
		op.Ref = g.uni(64, "ref")
	case "query":
		op.Q = g.Query()
		if g.p.NaNProbePct > 0 && g.pct("nanprobe") < g.p.NaNProbePct {
			fl := []string{"F64", "F32", "In.F", "Pt.F"}
			l := &op.Q.Leaves[g.uni(len(op.Q.Leaves), "nanleaf")]
			l.Path = pickU(g, fl, "nanpath")
			l.Op = pickU(g, []string{"=", "!=", "<", "<=", ">", ">="}, "nanop")
			l.V = Val{K: "nan", Narrow: g.pct("nannarrow") < 30}
		}
	case "insertBad", "updateBad", "manyBad":
		op.D = g.Doc()
		op.D.H = Hooks{}
		op.Ref = g.uni(64, "ref")
		if kind == "manyBad" {
			op.Items = g.Items(5)
		}
		op.Aux = map[string]interface{}{
			"path": pickU(g, []string{"F64", "F32", "In.F", "Pt.F"}, "badpath"),
			"val":  pickU(g, []string{"nan", "inf", "-inf", "nan", "badtime", "chan", "func", "hooknan", "hooknan"}, "badval"),
		}
	case "otherSwitch":
		op.Ref = g.uni(64, "ref")
		if g.pct("otheroff") < 40 {
			op.Ms = 0
		} else {
			op.Ms = 100 * (1 + g.uni(15, "otherto"))
		}
	case "coldUpdate":
		op.Ref = g.uni(64, "ref")
		op.Sets = g.Sets()
	case "crashRepair":
		op.Ref = g.uni(64, "ref")
	case "tick":
		op.Ms = 100 * (1 + g.uni(12, "tickms"))
	case "snapshot":
		q := g.Query()
		q.Limit, q.Reverse = nil, false
		q.Consumer = pickU(g, []string{"collect", "collect", "assign", "assign", "delete"}, "snapconsumer")
		shape := g.pct("snapshape")
		switch {
		case shape < 22:
			// a parent that matches every object
			p := docPathIndex["I64"]
			if ip := g.cfg.IndexedPaths(); len(ip) > 0 && g.pct("allidx") < 70 {
				p = pickU(g, ip, "allpath")
			}
			v := Val{K: "i", I: -987654321}
			switch {
			case p.Time:
				v = Val{K: "t", T: time.Date(1999, 9, 9, 9, 9, 9, 9, time.UTC)}
			case p.Class == ClsUint:
				v = Val{K: "u", U: 987654321}
			case p.Class == ClsFloat:
				v = Val{K: "f", F: -98765.4321}
			case p.Class == ClsStr:
				v = Val{K: "s", S: "no-such-value-987654321"}
			}
			q.Leaves = []Leaf{{Path: p.Path, Op: "!=", V: v}}
		case shape < 45:
			// a parent that is itself the product of an Or
			q.Leaves = []Leaf{g.Leaf(""), g.Leaf("or")}
		}
		tagged := shape >= 22 && shape < 36
		var tagVals []string
		if tagged {
			// ... over disjoint tag-like values of one string path: (P=v1 or P=v2), then
			// siblings "or P=v3" (before the writes) and "or P=v4" (after an insert of v4)
			perm := rapid.Permutation([]string{"a", "b", "A", "ab", "B", ""}).Draw(g.t, "tagvals")
			tagVals = perm[:4]
			q.Leaves = []Leaf{{Path: "S", Op: "=", V: Val{K: "s", S: tagVals[0]}}, {Conn: "or", Path: "S", Op: "=", V: Val{K: "s", S: tagVals[1]}}}
		}
		op.Q = q
		op.Aux = map[string]interface{}{}
		orParent := len(q.Leaves) == 2 && q.Leaves[1].Conn == "or"
		if g.pct("derive") < 60 {
			c := pickU(g, []string{"or", "or", "and"}, "dconn")
			if orParent {
				c = "or"
			}
			op.Aux["derive"] = g.Leaf(c)
		}
		if g.pct("derive2") < 60 {
			c := pickU(g, []string{"or", "and", "and"}, "dconn2")
			if orParent {
				c = "or"
			} else if shape < 22 {
				c = "and"
			}
			op.Aux["derive2"] = g.Leaf(c)
		}
		if d1, ok := op.Aux["derive"].(Leaf); ok && d1.Conn == "and" && g.pct("sameandpath") < 50 {
			// the base search is refined twice on ONE field, before and after the writes
			if p := docPathIndex[d1.Path]; p.Class != ClsNone && d1.Op != "~=" {
				op.Aux["derive2"] = Leaf{Conn: "and", Path: d1.Path, Op: pickU(g, []string{"=", "!=", "<=", ">=", d1.Op}, "sameandop"), V: g.Val(p)}
			}
		}
		if tagged {
			op.Aux["derive"] = Leaf{Conn: "or", Path: "S", Op: "=", V: Val{K: "s", S: tagVals[2]}}
			op.Aux["derive2"] = Leaf{Conn: "or", Path: "S", Op: "=", V: Val{K: "s", S: tagVals[3]}}
			d := g.Doc()
			d.S = tagVals[3]
			op.Sub = append(op.Sub, Op{Op: "insert", D: d})
			if g.pct("movemember") < 60 {
				// a member of the held result moves to exactly the value the late Or asks for
				op.Sub = append(op.Sub, Op{Op: "update", Ref: g.uni(64, "moveref"), Sets: []FieldSet{{Path: "S", V: Val{K: "s", S: tagVals[3]}}}})
			}
		}
		if !tagged && shape >= 45 && shape < 54 {
			// the held search is ONE equality term F = v1; members move to exactly v2 during the
			// writes; then Or(F = v2) is derived: a moved member is in both operands
			type eq struct {
				path   string
				v1, v2 Val
			}
			c := pickU(g, []eq{
				{"S", Val{K: "s", S: "a"}, Val{K: "s", S: "b"}}, {"S", Val{K: "s", S: ""}, Val{K: "s", S: "ab"}},
				{"U8", Val{K: "u", U: 0}, Val{K: "u", U: 1}}, {"I64", Val{K: "i", I: 0}, Val{K: "i", I: 1}}, {"I64", Val{K: "i", I: 1}, Val{K: "i", I: -1}},
			}, "eqmove")
			q.Leaves = []Leaf{{Path: c.path, Op: "=", V: c.v1}}
			op.Q = q
			delete(op.Aux, "derive")
			op.Aux["derive2"] = Leaf{Conn: "or", Path: c.path, Op: "=", V: c.v2}
			for i, k := 0, 1+g.uni(2, "nmoves"); i < k; i++ {
				op.Sub = append(op.Sub, Op{Op: "update", Ref: g.uni(64, "moveref"), Sets: []FieldSet{{Path: c.path, V: c.v2}}})
			}
		}
		n := 1 + g.uni(6, "nsub")
		burst := g.pct("burst") < 20 // many inserts: exceed the slice capacity
		pairs := g.pct("pairs") < 35 // as many removals as insertions
		for i := 0; i < n; i++ {
			kind := pickU(g, []string{"insert", "insert", "insert", "update", "update", "delete", "delete", "delete", "resurrect", "many", "repairLive"}, "subkind")
			if i > 0 && op.Sub[len(op.Sub)-1].Op == "delete" && g.pct("repairafterdelete") < 25 {
				kind = "repairLive" // (delete, Repair, insert: ids freed by the delete must stay retired)
			}
			if burst {
				kind = "insert"
			}
			if pairs {
				kind = []string{"delete", "insert"}[i%2]
			}
			sub := Op{Op: kind}
			switch kind {
			case "insert":
				sub.D = g.Doc()
				// land near the probe: copy the probe value into the queried field
				if g.pct("near") < 60 {
					l := q.Leaves[len(q.Leaves)-1]
					if p := docPathIndex[l.Path]; p.Class != ClsNone && l.Op != "~=" {
						setLeaf(sub.D, p, g.Val(p))
					}
				}
			case "update":
				sub.Ref = g.uni(64, "ref")
				l := q.Leaves[len(q.Leaves)-1]
				if p := docPathIndex[l.Path]; p.Class != ClsNone {
					sub.Sets = []FieldSet{{Path: p.Path, V: g.Val(p)}}
				} else {
					sub.Sets = g.Sets()
				}
			case "delete", "resurrect":
				sub.Ref = g.uni(64, "ref")
				if kind == "delete" && g.pct("delnewest") < 40 {
					sub.Ref = -1 // the most recently stored object
				}
			case "many":
				sub.Items = g.Items(4)
			}
			op.Sub = append(op.Sub, sub)
		}
	}
	if g.p.BadQueryPct > 0 && op.Q != nil && g.pct("badq") < g.p.BadQueryPct {
		g.spoil(op.Q)
	}
	return op
}

// spoil turns a query into one that cannot be evaluated (C12/C19): mistyped
// probe, invalid pattern, unknown operator or unknown field.
func (g *G) spoil(q *Query) {
	l := &q.Leaves[g.uni(len(q.Leaves), "spoilleaf")]
	p := docPathIndex[l.Path]
	switch g.uni(4, "spoilkind") {
	case 0: // probe of another class
		switch p.Class {
		case ClsStr:
			l.V = Val{K: "i", I: 1}
		case ClsInt:
			l.V = Val{K: "s", S: "1"}
		case ClsUint:
			l.V = Val{K: "i", I: 1}
		default:
			l.V = Val{K: "u", U: 1}
		}
		if l.Op == "~=" {
			l.Op = "="
		}
	case 1: // invalid pattern
		if p.Class == ClsStr {
			l.Op = "~="
			l.V = Val{K: "s", S: pickU(g, []string{"(", "[a", "a{2,1}", "*a", "\\"}, "badregex")}
		} else {
			l.V = Val{K: "f", F: 0.5}
			if p.Class == ClsFloat {
				l.V = Val{K: "s", S: "x"}
			}
		}
	case 2:
		l.Op = pickU(g, []string{"==", "<>", "", "like", "=~", "≥"}, "badop")
	case 3:
		l.Path = pickU(g, []string{"Nope", "S.X", "", "In.", ".S", "In.Nope", "Pt.Nope.X"}, "badpath")
	}
}

func (g *G) Program() *Program {
	g.cfg = g.Config()
	prog := &Program{Property: g.p.Property, Cfg: g.cfg}
	if g.p.SeedBatch > 0 {
		// start from a populated collection: one batch of fresh documents
		var items []BatchItem
		for i, k := 0, 1+g.uni(g.p.SeedBatch, "nseed"); i < k; i++ {
			d := g.Doc()
			d.H = Hooks{}
			items = append(items, BatchItem{Kind: "new", D: d})
		}
		prog.Ops = append(prog.Ops, Op{Op: "bulk", Items: items, CSize: 1})
	}
	n := 1 + g.uni(g.p.MaxOps, "nops")
	shiftAt := -1
	var sp []PathInfo
	for _, p := range g.cfg.IndexedPaths() {
		if p.Class == ClsStr && !strings.HasPrefix(p.Path, "H.") {
			sp = append(sp, p)
		}
	}
	if len(sp) >= 2 && g.p.WordShiftPct > 0 && g.pct("wordshift") < g.p.WordShiftPct {
		shiftAt = g.uni(n, "shiftat")
	}
	for i := 0; i < n; i++ {
		if i == shiftAt {
			// an update that moves a word from one indexed string field to another: the
			// concatenation of the indexed values stays the same, every single value changes
			a, b := sp[0], sp[1]
			if len(sp) > 2 && g.pct("shiftpair") < 50 {
				a, b = sp[len(sp)-2], sp[len(sp)-1]
			}
			w := pickU(g, [][3]string{{"a", "b", "c"}, {"Jean", "Paul", "B"}, {"x", "y", ""}}, "shiftwords")
			sepv := pickU(g, []string{" ", " ", ",", "-"}, "shiftsep")
			d := g.Doc()
			d.H = Hooks{}
			setLeaf(d, a, Val{K: "s", S: w[0] + sepv + w[1]})
			setLeaf(d, b, Val{K: "s", S: w[2]})
			prog.Ops = append(prog.Ops, Op{Op: "insert", D: d},
				Op{Op: "update", Ref: -1, Sets: []FieldSet{{Path: a.Path, V: Val{K: "s", S: w[0]}}, {Path: b.Path, V: Val{K: "s", S: strings.TrimSpace(w[1] + sepv + w[2])}}}})
		}
		prog.Ops = append(prog.Ops, g.Op())
	}
	return prog
}

func NewG(t *rapid.T, p *Profile) *G { return &G{t: t, p: p} }

func sortStrings(s []string) {
	for i := 1; i < len(s); i++ {
		for j := i; j > 0 && s[j] < s[j-1]; j-- {
			s[j], s[j-1] = s[j-1], s[j]
		}
	}
}
