package props

import (
	"bytes"
	"compress/gzip"
	"crypto/sha256"
	"encoding/json"
	"fmt"
	"os"
	"path/filepath"
	"sort"
	"strings"
	"testing"

	"github.com/0xrawsec/sod"
	"pgregory.net/rapid"
)

// ---------------------------------------------------------------- C11: Control / Repair

type Fault struct {
	K    string `json:"k"` // rmfile addfile rmentry rmschema drop1 swap
	Ref  int    `json:"ref,omitempty"`
	D    *Doc   `json:"d,omitempty"`
	Seed uint64 `json:"seed,omitempty"`
}

func gz(b []byte) []byte {
	var buf bytes.Buffer
	w, _ := gzip.NewWriterLevel(&buf, gzip.BestSpeed)
	w.Write(b)
	w.Close()
	return buf.Bytes()
}

// schema.json as a generic tree (numbers kept exact)
func readTree(path string) (map[string]interface{}, error) {
	b, err := os.ReadFile(path)
	if err != nil {
		return nil, err
	}
	dec := json.NewDecoder(bytes.NewReader(b))
	dec.UseNumber()
	var m map[string]interface{}
	err = dec.Decode(&m)
	return m, err
}

func writeTree(path string, m map[string]interface{}) error {
	b, err := json.Marshal(m)
	if err != nil {
		return err
	}
	return os.WriteFile(path, b, 0700)
}

func treeIndex(m map[string]interface{}) (fields map[string]interface{}, ids map[string]interface{}) {
	idx, _ := m["index"].(map[string]interface{})
	if idx == nil {
		return nil, nil
	}
	fields, _ = idx["fields"].(map[string]interface{})
	ids, _ = idx["object-ids"].(map[string]interface{})
	return
}

func sortedStrKeys(m map[string]interface{}) []string {
	ks := make([]string, 0, len(m))
	for k := range m {
		ks = append(ks, k)
	}
	sort.Strings(ks)
	return ks
}

func dirHashes(dir string) map[string]string {
	out := map[string]string{}
	ents, _ := os.ReadDir(dir)
	for _, en := range ents {
		if en.Name() == "schema.json" {
			continue
		}
		// the temporary file of a schema commit in flight (live handle with a running flusher: it
		// may commit once more right after an explicit flush) is not an object file
		if en.Name() == ".schema.json.tmp" {
			continue
		}
		b, _ := os.ReadFile(filepath.Join(dir, en.Name()))
		out[en.Name()] = fmt.Sprintf("%x", sha256.Sum256(b))
	}
	return out
}

func TestC11(t *testing.T) {
	st := statsFor("C11")
	st.Rule = "a database is built by a generated history under a generated configuration and closed; then a generated fault set is applied from outside: remove object files, add valid object files under fresh uuids (not conflicting on unique paths), remove index entries consistently from schema.json, remove schema.json, make one index internally inconsistent (drop a tuple from one field index only; swap two tuples of different value (the first and the last, or two neighbours - mostly the last two); index one object twice and its neighbour not at all), plus two harmless shapes: a backup copy '<uuid><ext>.bak' next to an object file, an object file replaced by a symbolic link to a regular file. Objects may carry value-changing Transform hooks (after Repair the index must reflect what the files hold). Added files are half of the time written the way another tool would (indented, extra unknown member, half of those partial documents that leave members out) so that a Repair that rewrites files changes bytes; in a quarter of the cases the damage (file level only) is done while the handle stays open - warm cache, index in memory - and detection goes through Control on that handle; a second, untouched collection is loaded on the same handle and Control is asked six times (it must report the damaged one every time); added files may hold values their own Validate refuses (Repair indexes, it does not judge); Repair is given a template object with non-zero fields (only its type may matter); in a third of the divergent cases the first call is a bulk import (must report corruption and store nothing); after Repair the objects whose files were lost are stored again exactly as they were and must be written; caller-style uuids (upper-case, non-v4) are used. Oracle: expected divergence computed from sets (uuid-named files vs. object-ids in schema.json). First load and Control report ErrIndexCorrupted iff the sets differ (some error if an index is internally inconsistent; nil on a healthy database of every configuration); Repair returns nil, leaves every object file byte-identical and creates/removes none; afterwards Control is nil and Count, All, Get and a search sweep (every operator x stored values and neighbours on every indexed path) equal predicates evaluated on the decoded file contents; after Close and reopen Control is still nil. Removed schema: Create reports corruption iff files exist, then Repair as above. Non-trivial: fault set with >= 2 kinds, or a cancelling pair, or a boundary shape (all files gone, only extra files, empty collection). Distinct by program hash."
	st.Assumptions = baseAssumptions()
	prof := &Profile{
		Property: "C11", MaxOps: pick(8, 18),
		W:          map[string]int{"insert": 9, "update": 3, "delete": 2, "many": 2, "reopen": 1},
		AllowCache: true, AllowCompress: true, AllowAsync: true, AllowLower: true,
		MaxIndexed: 3, MaxUnique: 1, CasePaths: 1,
		TinyBias: 55, BigBias: 12, HookBias: 12, RichShape: 15, MaxLeaves: 1,
	}
	rapid.Check(t, func(rt *rapid.T) {
		g := NewG(rt, prof)
		prog := g.Program()
		var faults []Fault
		n := g.uni(6, "nfaults")
		kinds := []string{"rmfile", "rmfile", "rmfile", "addfile", "addfile", "rmentry", "rmentry", "rmschema", "drop1", "swap", "dup1", "rmfile+entry", "rmallfiles", "sibling", "tosymlink", "swapadj", "swapadj"}
		for i := 0; i < n; i++ {
			f := Fault{K: pickU(g, kinds, "faultkind"), Ref: g.uni(64, "fref")}
			if f.K == "addfile" {
				f.D = g.Doc() // (may hold values its own Validate refuses: Repair indexes files, it does not judge them)
				f.Seed = uint64(1000 + g.uni(1000, "fseed"))
			}
			faults = append(faults, f)
		}
		prog.Aux = map[string]interface{}{"faults": faults, "live": g.pct("live") < 25}
		guard(rt, prog, func() { caseC11(rt, prog) })
	})
}

func caseC11(t TB, prog *Program) {
	st := statsFor("C11")
	var faults []Fault
	reJSON(prog.Aux["faults"], &faults)
	e := NewEnv(t, prog, RunOpts{SweepLevel: 2, Control: true})
	defer e.Teardown()
	e.Run()
	orig := e.m
	// a second, healthy collection on the same handle: its verdict must not hide the first one's
	nOther := 1 + int(prog.Hash()%3)
	if err := e.db.Create(&Other{}, sod.DefaultSchema); err != nil {
		e.failf("Create second collection: %v", err)
	}
	for i := 0; i < nOther; i++ {
		if err := e.db.InsertOrUpdate(&Other{K: int64(i), V: "v"}); err != nil {
			e.failf("insert into the second collection: %v", err)
		}
	}
	// live variant: the directory is damaged while the handle stays open (warm cache, index in
	// memory): only file-level damage, detection through Control on that handle
	live, _ := prog.Aux["live"].(bool)
	liveDB := e.db
	if live {
		if err := e.db.FlushAllAndCommit(&Doc{}); err != nil {
			e.failf("FlushAllAndCommit: %v", err)
		}
		if err := e.db.Commit(&Doc{}); err != nil {
			e.failf("Commit: %v", err)
		}
		var kept []Fault
		for _, f := range faults {
			switch f.K {
			case "rmfile", "addfile", "sibling", "tosymlink", "rmallfiles":
				kept = append(kept, f)
			}
		}
		faults = kept
		e.flag("damage-under-a-live-handle")
	} else {
		if err := e.db.Close(); err != nil {
			e.failf("Close: %v", err)
		}
		e.db = nil
	}
	dir := e.collDir()
	schemaPath := filepath.Join(dir, "schema.json")
	suffix := e.cfg.Ext
	if e.cfg.Compress {
		suffix += ".gz"
	}

	// ---- apply the faults from outside
	kinds := map[string]bool{}
	schemaRemoved, inconsistent := false, false
	removedFile, removedEntry := map[string]bool{}, map[string]bool{}
	filesNow := func() []string {
		w := WalkDir(dir)
		ids := make([]string, 0, len(w.Objects))
		for id := range w.Objects {
			ids = append(ids, id)
		}
		sort.Slice(ids, func(i, j int) bool { return e.ord[ids[i]] < e.ord[ids[j]] })
		return ids
	}
	rmEntry := func(id string) bool {
		if schemaRemoved {
			return false
		}
		tree, err := readTree(schemaPath)
		if err != nil {
			e.failf("harness: schema.json unreadable: %v", err)
		}
		fields, ids := treeIndex(tree)
		oid := ""
		for _, k := range sortedStrKeys(ids) {
			if ids[k] == id {
				oid = k
			}
		}
		if oid == "" {
			return false
		}
		delete(ids, oid)
		for _, fn := range sortedStrKeys(fields) {
			fi := fields[fn].(map[string]interface{})
			tuples, _ := fi["index"].([]interface{})
			var keep []interface{}
			for _, tp := range tuples {
				tup := tp.([]interface{})
				if fmt.Sprint(tup[1]) != oid {
					keep = append(keep, tp)
				}
			}
			if keep == nil {
				keep = []interface{}{}
			}
			fi["index"] = keep
		}
		if err := writeTree(schemaPath, tree); err != nil {
			e.failf("harness: %v", err)
		}
		return true
	}
	linkDir := e.root + "-links"
	defer os.RemoveAll(linkDir)
	for _, f := range faults {
		switch f.K {
		case "sibling":
			// a backup copy next to an object file: one more directory entry, no other object
			ids := filesNow()
			if len(ids) == 0 {
				continue
			}
			id := ids[f.Ref%len(ids)]
			if b, err := os.ReadFile(filepath.Join(dir, id+suffix)); err == nil {
				os.WriteFile(filepath.Join(dir, id+suffix+".bak"), b, 0600)
				e.flag("fault-sibling-entry")
				kinds["sibling"] = true
			}
		case "tosymlink":
			// the object file is a symbolic link to a regular file kept elsewhere
			ids := filesNow()
			if len(ids) == 0 {
				continue
			}
			id := ids[f.Ref%len(ids)]
			os.MkdirAll(linkDir, 0700)
			if fi, err := os.Lstat(filepath.Join(dir, id+suffix)); err == nil && fi.Mode().IsRegular() {
				if os.Rename(filepath.Join(dir, id+suffix), filepath.Join(linkDir, id+suffix)) == nil {
					if err := os.Symlink(filepath.Join(linkDir, id+suffix), filepath.Join(dir, id+suffix)); err != nil {
						e.failf("harness: %v", err)
					}
					e.flag("fault-object-file-is-a-symlink")
					kinds["tosymlink"] = true
				}
			}
		case "rmfile", "rmfile+entry":
			ids := filesNow()
			if len(ids) == 0 {
				continue
			}
			id := ids[f.Ref%len(ids)]
			os.Remove(filepath.Join(dir, id+suffix+".bak"))
			os.Remove(filepath.Join(dir, id+suffix))
			removedFile[id] = true
			kinds["rmfile"] = true
			if f.K == "rmfile+entry" && rmEntry(id) {
				removedEntry[id] = true
				kinds["rmentry"] = true
			}
		case "rmallfiles":
			for _, id := range filesNow() {
				os.Remove(filepath.Join(dir, id+suffix+".bak"))
				os.Remove(filepath.Join(dir, id+suffix))
				removedFile[id] = true
				kinds["rmfile"] = true
			}
			e.flag("boundary-all-files-gone")
		case "addfile":
			id := seedUUID(f.Seed)
			if _, err := os.Stat(filepath.Join(dir, id+suffix)); err == nil {
				continue
			}
			// must not conflict on unique paths with what the files hold
			cur := NewModel(e.cfg)
			w := WalkDir(dir)
			for fid, wf := range w.Objects {
				if d, err := wf.Doc(); err == nil {
					cur.objs[fid] = d
				}
			}
			body := []byte(canon(f.D))
			// a file written by another tool: same content, other bytes (indented, member
			// order irrelevant, an extra member the struct does not know) - and, every other
			// time, a partial document that leaves members out (they are zero then)
			if f.Seed%2 == 0 {
				var generic map[string]interface{}
				dec := json.NewDecoder(bytes.NewReader(body))
				dec.UseNumber()
				if dec.Decode(&generic) == nil {
					generic["XForeignComment"] = "written by another tool"
					if f.Seed%4 == 2 {
						for i, k := range sortedStrKeys(generic) {
							if i%3 == int(f.Seed/4)%3 && k != "H" {
								delete(generic, k)
							}
						}
						e.flag("partial-document-added")
					}
					if b, err := json.MarshalIndent(generic, "", "   "); err == nil {
						body = b
						e.flag("foreign-formatted-file-added")
					}
				}
			}
			eff := &Doc{}
			if err := json.Unmarshal(body, eff); err != nil {
				e.failf("harness: %v", err)
			}
			eff.Initialize(id)
			if cur.conflicts(eff, id, cur.objs) {
				e.flag("fault-skipped-unique-conflict")
				continue
			}
			if e.cfg.Compress {
				body = gz(body)
			}
			if err := os.WriteFile(filepath.Join(dir, id+suffix), body, 0700); err != nil {
				e.failf("harness: %v", err)
			}
			kinds["addfile"] = true
		case "rmentry":
			ids := make([]string, 0)
			if tree, err := readTree(schemaPath); err == nil {
				_, m := treeIndex(tree)
				for _, k := range sortedStrKeys(m) {
					ids = append(ids, fmt.Sprint(m[k]))
				}
			}
			sort.Slice(ids, func(i, j int) bool { return e.ord[ids[i]] < e.ord[ids[j]] })
			if len(ids) == 0 {
				continue
			}
			id := ids[f.Ref%len(ids)]
			if rmEntry(id) {
				removedEntry[id] = true
				kinds["rmentry"] = true
			}
		case "rmschema":
			if !schemaRemoved {
				os.Remove(schemaPath)
				schemaRemoved = true
				kinds["rmschema"] = true
			}
		case "drop1", "swap", "dup1", "swapadj":
			if schemaRemoved {
				continue
			}
			tree, err := readTree(schemaPath)
			if err != nil {
				continue
			}
			fields, _ := treeIndex(tree)
			names := sortedStrKeys(fields)
			if len(names) == 0 {
				continue
			}
			fi := fields[names[f.Ref%len(names)]].(map[string]interface{})
			tuples, _ := fi["index"].([]interface{})
			if f.K == "swapadj" {
				// two neighbours of different value exchanged - at the tail of the index two times
				// out of three, anywhere otherwise: the order is wrong in exactly one place
				if len(tuples) < 2 {
					continue
				}
				k := len(tuples) - 2
				if f.Ref%3 == 2 {
					k = (f.Ref / 3) % (len(tuples) - 1)
				}
				a, b := tuples[k].([]interface{}), tuples[k+1].([]interface{})
				if fmt.Sprint(a[0]) == fmt.Sprint(b[0]) {
					continue
				}
				tuples[k], tuples[k+1] = tuples[k+1], tuples[k]
				inconsistent = true
			} else if f.K == "dup1" {
				// size-preserving: one object indexed twice, its neighbour not at all
				if len(tuples) < 2 {
					continue
				}
				k := f.Ref % (len(tuples) - 1)
				a, b := tuples[k].([]interface{}), tuples[k+1].([]interface{})
				if fmt.Sprint(a[1]) == fmt.Sprint(b[1]) {
					continue
				}
				tuples[k+1] = []interface{}{b[0], a[1]}
				inconsistent = true
			} else if f.K == "drop1" {
				if len(tuples) == 0 {
					continue
				}
				k := f.Ref % len(tuples)
				fi["index"] = append(append([]interface{}{}, tuples[:k]...), tuples[k+1:]...)
				inconsistent = true
			} else {
				if len(tuples) < 2 {
					continue
				}
				a, b := tuples[0].([]interface{}), tuples[len(tuples)-1].([]interface{})
				if fmt.Sprint(a[0]) == fmt.Sprint(b[0]) {
					continue
				}
				tuples[0], tuples[len(tuples)-1] = tuples[len(tuples)-1], tuples[0]
				inconsistent = true
			}
			kinds[f.K] = true
			writeTree(schemaPath, tree)
		}
	}
	for id := range removedFile {
		if removedEntry[id] {
			e.flag("cancelling-pair")
		}
	}

	// ---- expected divergence from sets
	w := WalkDir(dir)
	fileSet := map[string]bool{}
	fileModel := NewModel(e.cfg)
	for id, wf := range w.Objects {
		fileSet[id] = true
		d, err := wf.Doc()
		if err != nil {
			e.failf("harness: object file %s undecodable: %v", wf.Name, err)
		}
		e.note(id)
		fileModel.objs[id] = d
		fileModel.live = append(fileModel.live, id)
		fileModel.last[id] = d
	}
	sort.Slice(fileModel.live, func(i, j int) bool { return e.ord[fileModel.live[i]] < e.ord[fileModel.live[j]] })
	indexSet := map[string]bool{}
	if !schemaRemoved {
		if w.Schema == nil {
			e.failf("harness: schema.json undecodable after faults: %s", w.SchemaErr)
		}
		for _, u := range w.Schema.Index.ObjectIds {
			indexSet[u] = true
		}
	}
	// internal inconsistency is judged on the final schema.json (faults may cancel)
	tampered := inconsistent
	inconsistent = !schemaRemoved && schemaInconsistent(w.Schema)
	if tampered && !inconsistent && !schemaRemoved {
		// tuple-level faults that later faults cancelled structurally can leave an index that is
		// well formed but holds another object's value: value tampering is outside the fault space
		// of the property (removed/added files, removed entries, removed schema, inconsistency)
		st.Exclude("cancelled-inconsistency-out-of-domain")
		return
	}
	divergent := len(fileSet) != len(indexSet)
	for id := range fileSet {
		if !indexSet[id] {
			divergent = true
		}
	}
	if len(fileSet) == 0 {
		e.flag("boundary-no-files")
	}
	if len(indexSet) == 0 && len(fileSet) > 0 {
		e.flag("boundary-only-extra-files")
	}
	if divergent {
		e.flag("divergent")
	} else {
		e.flag("healthy")
	}
	if inconsistent {
		e.flag("inconsistent")
	}
	before := dirHashes(dir)

	// ---- detection
	sod.LowercaseNames = e.cfg.Lower
	var db *sod.DB
	if live {
		db = liveDB
	} else {
		db = sod.Open(e.root)
	}
	e.db = db
	if live {
		for round := 0; round < 3; round++ {
			cerr := db.Control()
			if divergent && !sod.IsIndexCorrupted(cerr) {
				e.failf("the directory was damaged while the handle was open: files and index differ as sets but Control (call %d) returned %v", round+1, cerr)
			}
			if !divergent && cerr != nil {
				e.failf("the directory was touched while the handle was open but files and index still agree: Control returned %v", cerr)
			}
		}
	} else if schemaRemoved {
		err := db.Create(&Doc{}, e.cfg.Schema())
		if len(fileSet) > 0 {
			if !sod.IsIndexCorrupted(err) {
				e.failf("schema.json removed, %d object files present: Create returned %v, want ErrIndexCorrupted", len(fileSet), err)
			}
		} else if err != nil {
			e.failf("schema.json removed, no object files: Create returned %v, want nil", err)
		}
		divergent = len(fileSet) > 0
	} else {
		var err error
		if divergent && !inconsistent && prog.Hash()%3 == 0 {
			// the first call is a bulk import of one full chunk: it gets the corruption report,
			// stores nothing and says so
			ch := make(chan sod.Object, 2)
			ch <- &Doc{S: "first-call-1"}
			ch <- &Doc{S: "first-call-2"}
			close(ch)
			var n int
			n, err = db.InsertOrUpdateBulk(ch, 2)
			if n != 0 || len(WalkDir(dir).Objects) != len(fileSet) {
				e.failf("files and index differ as sets; InsertOrUpdateBulk as the first call returned n=%d err=%v and left %d object files (%d before)", n, err, len(WalkDir(dir).Objects), len(fileSet))
			}
			e.flag("first-call-is-a-bulk-import")
		} else {
			_, err = db.Count(&Doc{})
		}
		switch {
		case inconsistent:
			if err == nil {
				e.failf("an index is internally inconsistent but the first load reports nothing")
			}
			if _, err2 := db.Count(&Doc{}); err2 == nil && !sod.IsIndexCorrupted(err) {
				e.failf("an index is internally inconsistent; the first load reported %v but the next call succeeds", err)
			}
			// Repair is not required to fix this class; detection is all the property asks
			cfgFlags(e)
			nt := len(kinds) >= 2
			st.Case(prog.Hash(), nt, e.flags, func() interface{} { return prog })
			return
		case divergent:
			if !sod.IsIndexCorrupted(err) {
				e.failf("files %d vs indexed %d differ as sets, but the first load returned %v, want ErrIndexCorrupted", len(fileSet), len(indexSet), err)
			}
		default:
			if err != nil {
				e.failf("healthy database (files == index, %d objects): first load returned %v", len(fileSet), err)
			}
		}
		// both collections are loaded; Control is asked several times (it visits them in map order)
		if n, oerr := db.Count(&Other{}); oerr != nil || n != nOther {
			e.failf("second (untouched) collection: Count=%d err=%v, want %d", n, oerr, nOther)
		}
		// the uuids of the first collection are looked up in the second one (never stored there)
		for id := range fileSet {
			if _, gerr := db.GetByUUID(&Other{}, id); gerr == nil {
				e.failf("GetByUUID of %s in the second collection succeeded: it was never stored there", id)
			}
		}
		for round := 0; round < 6; round++ {
			cerr := db.Control()
			if divergent && !sod.IsIndexCorrupted(cerr) {
				e.failf("files and index of one of two loaded collections differ as sets but Control (call %d) returned %v", round+1, cerr)
			}
			if !divergent && cerr != nil {
				e.failf("healthy database: Control returned %v", cerr)
			}
		}
	}

	// ---- repair
	// (the argument only names the collection: its field values must not matter)
	if err := db.Repair(&Doc{S: "template", S2: "template", I64: 77, U8: 7, F64: 7.5, T: baseTime, In: Inner{S: "template", N: 7}, Pt: &Inner{S: "template"}}); err != nil {
		e.failf("Repair returned %v (divergent=%v files=%d indexed=%d)", err, divergent, len(fileSet), len(indexSet))
	}
	after := dirHashes(dir)
	if len(after) != len(before) {
		e.failf("Repair created or removed files: before %d entries, after %d", len(before), len(after))
	}
	for name, h := range before {
		if after[name] != h {
			e.failf("Repair modified or removed object file %s", name)
		}
	}
	if err := db.Control(); err != nil {
		e.failf("after Repair, Control returned %v", err)
	}
	// reads and searches must reflect file contents
	e.m = fileModel
	e.dirty = false
	e.opts.Walk = false
	e.Check("after Repair (model = decoded file contents)")
	// objects whose file was lost are stored again, exactly as they were: they must be written
	restored := 0
	for _, id := range sortedIDs(removedFile) {
		d, had := orig.objs[id]
		if _, back := e.m.objs[id]; back || !had || e.m.conflicts(d, id, e.m.objs) {
			continue
		}
		e.note(id)
		e.upsert(fmt.Sprintf("storing %s again after Repair", e.tag(id)), cloneDoc(d), id)
		restored++
	}
	if restored > 0 {
		e.flag("lost-objects-stored-again-after-repair")
		if e.cfg.Async != nil {
			if err := db.FlushAllAndCommit(&Doc{}); err != nil {
				e.failf("FlushAllAndCommit: %v", err)
			}
		}
		if err := db.Control(); err != nil {
			e.failf("after storing the lost objects again, Control returned %v", err)
		}
		e.Check("after storing the lost objects again")
	}
	if err := db.Close(); err != nil {
		e.failf("Close after Repair: %v", err)
	}
	e.db = sod.Open(e.root)
	if _, err := e.db.Count(&Doc{}); err != nil {
		e.failf("reopen after Repair+Close: first load returned %v", err)
	}
	e.Check("after Repair, Close and reopen")
	final := dirHashes(dir)
	for name, h := range before {
		if final[name] != h {
			e.failf("object file %s changed after Repair+Close", name)
		}
	}
	cfgFlags(e)
	for k := range kinds {
		e.flag("fault-" + k)
	}
	nt := len(kinds) >= 2 || e.flags["cancelling-pair"] > 0 || e.flags["boundary-no-files"] > 0 || e.flags["boundary-only-extra-files"] > 0 || e.flags["boundary-all-files-gone"] > 0
	st.Case(prog.Hash(), nt, e.flags, func() interface{} { return prog })
}

func init() {
	replayers["C11"] = func(t *testing.T, prog *Program) { guardT(t, prog, func() { caseC11(t, prog) }) }
}

// schemaInconsistent: some field index has another size than the object-id
// table, or is not in non-increasing order of its cast.
func schemaInconsistent(s *WSchema) bool {
	for _, fi := range s.Index.Fields {
		if len(fi.Index) != len(s.Index.ObjectIds) {
			return true
		}
		seenIDs := map[string]bool{}
		for _, tup := range fi.Index {
			if len(tup) == 2 {
				seenIDs[strings.TrimSpace(string(tup[1]))] = true
			}
		}
		for oid := range s.Index.ObjectIds {
			if !seenIDs[oid] {
				return true // an object no field index entry refers to
			}
		}
		var prev *norm
		for _, tup := range fi.Index {
			if len(tup) != 2 {
				return true
			}
			n, err := decodeIndexValue(tup[0], fi.Cast)
			if err != nil {
				return true
			}
			if prev != nil && prev.cmp(n) < 0 {
				return true
			}
			nn := n
			prev = &nn
		}
	}
	return false
}
