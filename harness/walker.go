package props

import (
	"bytes"
	"compress/gzip"
	"encoding/json"
	"fmt"
	"io"
	"os"
	"path/filepath"
	"regexp"
	"sort"
	"strings"
	"time"
)

// ---------------------------------------------------------------- independent walker
//
// Lists and decodes a collection directory without calling into sod: own
// gunzip, own JSON structs.  Everything "about the disk" goes through here.

var walkUUID = regexp.MustCompile(`^[0-9a-fA-F]{8}-[0-9a-fA-F]{4}-[0-9a-fA-F]{4}-[0-9a-fA-F]{4}-[0-9a-fA-F]{12}$`)

type WFile struct {
	Name   string
	UUID   string
	Suffix string // everything after the uuid
	Raw    []byte // bytes on disk
	Body   []byte // after gunzip when the name ends in .gz
	Gzip   bool
	Err    string // read / gunzip problem
}

type WSchema struct {
	Fields map[string]struct {
		Path        string `json:"path"`
		Type        string `json:"type"`
		Constraints Cons   `json:"constraints"`
	} `json:"fields"`
	Extension   string `json:"extension"`
	Compress    bool   `json:"compress"`
	Cache       bool   `json:"cache"`
	AsyncWrites *struct {
		Enable    bool   `json:"enable"`
		Threshold int    `json:"threshold"`
		Timeout   string `json:"timeout"`
	} `json:"async-writes"`
	Index struct {
		Fields map[string]struct {
			Name        string              `json:"name"`
			Cast        string              `json:"cast"`
			Constraints Cons                `json:"constraints"`
			Index       [][]json.RawMessage `json:"index"`
		} `json:"fields"`
		ObjectIds map[string]string `json:"object-ids"`
	} `json:"index"`
}

type Walk struct {
	Dir       string
	Exists    bool
	Objects   map[string]*WFile // by uuid
	Others    []string          // entries that are neither schema.json nor uuid-named
	SchemaRaw []byte
	Schema    *WSchema
	SchemaErr string
}

func gunzip(b []byte) ([]byte, error) {
	r, err := gzip.NewReader(bytes.NewReader(b))
	if err != nil {
		return nil, err
	}
	return io.ReadAll(r)
}

func WalkDir(dir string) *Walk {
	w := &Walk{Dir: dir, Objects: map[string]*WFile{}}
	ents, err := os.ReadDir(dir)
	if err != nil {
		return w
	}
	w.Exists = true
	for _, en := range ents {
		name := en.Name()
		if name == "schema.json" {
			w.SchemaRaw, err = os.ReadFile(filepath.Join(dir, name))
			if err != nil {
				w.SchemaErr = err.Error()
				continue
			}
			s := &WSchema{}
			if err := json.Unmarshal(w.SchemaRaw, s); err != nil {
				w.SchemaErr = err.Error()
			} else {
				w.Schema = s
			}
			continue
		}
		id := name
		suffix := ""
		if i := strings.IndexByte(name, '.'); i >= 0 {
			id, suffix = name[:i], name[i:]
		}
		if !walkUUID.MatchString(id) || en.IsDir() {
			w.Others = append(w.Others, name)
			continue
		}
		f := &WFile{Name: name, UUID: id, Suffix: suffix}
		f.Raw, err = os.ReadFile(filepath.Join(dir, name))
		if err != nil {
			f.Err = err.Error()
		} else if strings.HasSuffix(name, ".gz") {
			f.Gzip = true
			if f.Body, err = gunzip(f.Raw); err != nil {
				f.Err = "gunzip: " + err.Error()
			}
		} else {
			f.Body = f.Raw
		}
		if prev, dup := w.Objects[id]; dup {
			w.Others = append(w.Others, "duplicate:"+prev.Name+"|"+name)
			if len(prev.Name) <= len(name) {
				continue // the object file proper has the shorter name
			}
		}
		w.Objects[id] = f
	}
	sort.Strings(w.Others)
	return w
}

// Doc decodes an object file with encoding/json into the harness type.
func (f *WFile) Doc() (*Doc, error) {
	if f.Err != "" {
		return nil, fmt.Errorf("%s", f.Err)
	}
	d := &Doc{}
	if err := json.Unmarshal(f.Body, d); err != nil {
		return nil, err
	}
	d.Initialize(f.UUID)
	return d, nil
}

// walkCheck: at a quiescent point in synchronous mode the directory holds
// exactly schema.json plus one file per model object, named
// <uuid><ext>[.gz], gzip iff configured, whose body is the object's JSON.
func (e *Env) walkCheck(where string) {
	if problems := e.walkProblems(true); len(problems) > 0 {
		if len(problems) > 6 {
			problems = problems[:6]
		}
		e.failf("%s: directory does not match the model:\n  %s", where, strings.Join(problems, "\n  "))
	}
}

func (e *Env) walkProblems(checkIndex bool) (problems []string) {
	w := WalkDir(e.collDir())
	// a background flusher may be in the middle of a write (temporary file, then rename): a
	// temporary file only counts when it stays
	for try := 0; try < 10 && e.cfg.Async != nil && onlyTempFiles(w.Others); try++ {
		time.Sleep(10 * time.Millisecond)
		w = WalkDir(e.collDir())
	}
	bad := func(f string, a ...interface{}) { problems = append(problems, fmt.Sprintf(f, a...)) }
	if !w.Exists {
		bad("collection directory %s does not exist", e.collDir())
		return
	}
	if len(w.Others) > 0 {
		bad("unexpected entries %v", w.Others)
	}
	wantSuffix := e.cfg.Ext
	if e.cfg.Compress {
		wantSuffix += ".gz"
	}
	for id, d := range e.m.objs {
		f, ok := w.Objects[id]
		if !ok {
			bad("no file for stored object %s", e.tag(id))
			continue
		}
		if f.Suffix != wantSuffix {
			bad("file %s: suffix %q, want %q", f.Name, f.Suffix, wantSuffix)
		}
		if f.Gzip != e.cfg.Compress {
			bad("file %s: gzip=%v, want %v", f.Name, f.Gzip, e.cfg.Compress)
		}
		if f.Err != "" {
			bad("file %s: %s", f.Name, f.Err)
			continue
		}
		if string(f.Body) != canon(d) {
			bad("file %s: body %s, want %s", f.Name, f.Body, canon(d))
		}
	}
	for id, f := range w.Objects {
		if _, ok := e.m.objs[id]; !ok {
			bad("file %s for an object that is not stored", f.Name)
		}
	}
	if w.Schema == nil {
		bad("schema.json missing or undecodable: %s", w.SchemaErr)
		return
	}
	if !checkIndex {
		return
	}
	s := w.Schema
	if s.Extension != e.cfg.Ext || s.Compress != e.cfg.Compress || s.Cache != e.cfg.Cache {
		bad("schema.json settings ext=%q compress=%v cache=%v, want %q %v %v", s.Extension, s.Compress, s.Cache, e.cfg.Ext, e.cfg.Compress, e.cfg.Cache)
	}
	// object-ids: a bijection id <-> uuid over exactly the stored objects
	byUUID := map[string]string{}
	for oid, u := range s.Index.ObjectIds {
		if _, dup := byUUID[u]; dup {
			bad("schema.json: uuid %s has two object ids", u)
		}
		byUUID[u] = oid
		if _, ok := e.m.objs[u]; !ok {
			bad("schema.json: object-ids lists %s which is not stored", u)
		}
	}
	for id := range e.m.objs {
		if _, ok := byUUID[id]; !ok {
			bad("schema.json: object-ids misses stored object %s", e.tag(id))
		}
	}
	// one index per indexed path, tuples [value, id], non-increasing, values == file values
	want := map[string]bool{}
	for _, p := range e.cfg.IndexedPaths() {
		want[p.Path] = true
		fi, ok := s.Index.Fields[p.Path]
		if !ok {
			bad("schema.json: no index for %s", p.Path)
			continue
		}
		if fi.Name != p.Path || fi.Cast != p.Class {
			bad("schema.json: index %s has name=%q cast=%q", p.Path, fi.Name, fi.Cast)
		}
		if len(fi.Index) != len(e.m.objs) {
			bad("schema.json: index %s has %d entries, want %d", p.Path, len(fi.Index), len(e.m.objs))
			continue
		}
		var prev *norm
		for _, tup := range fi.Index {
			if len(tup) != 2 {
				bad("schema.json: index %s has a tuple of arity %d", p.Path, len(tup))
				continue
			}
			oid := strings.TrimSpace(string(tup[1]))
			u, ok := s.Index.ObjectIds[oid]
			if !ok {
				bad("schema.json: index %s refers to unknown object id %s", p.Path, oid)
				continue
			}
			d, ok := e.m.objs[u]
			if !ok {
				continue
			}
			n, err := decodeIndexValue(tup[0], p.Class)
			if err != nil {
				bad("schema.json: index %s value %s: %v", p.Path, tup[0], err)
				continue
			}
			if n.cmp(normLeaf(d, p)) != 0 {
				bad("schema.json: index %s holds %s for %s, object has %s", p.Path, keyString(n), e.tag(u), keyString(normLeaf(d, p)))
			}
			if prev != nil && prev.cmp(n) < 0 {
				bad("schema.json: index %s is not in non-increasing order", p.Path)
			}
			nn := n
			prev = &nn
		}
	}
	for name := range s.Index.Fields {
		if !want[name] {
			bad("schema.json: unexpected index %s", name)
		}
	}
	return
}

func decodeIndexValue(raw json.RawMessage, cls string) (norm, error) {
	n := norm{cls: cls}
	var err error
	switch cls {
	case ClsInt:
		err = json.Unmarshal(raw, &n.i)
	case ClsUint:
		err = json.Unmarshal(raw, &n.u)
	case ClsFloat:
		err = json.Unmarshal(raw, &n.f)
	case ClsStr:
		err = json.Unmarshal(raw, &n.s)
	}
	return n, err
}

func onlyTempFiles(names []string) bool {
	if len(names) == 0 {
		return false
	}
	for _, n := range names {
		if !(strings.HasPrefix(n, ".") && strings.HasSuffix(n, ".tmp")) {
			return false
		}
	}
	return true
}
