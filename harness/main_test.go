package props

import (
	"os"
	"testing"
)

func TestMain(m *testing.M) {
	code := m.Run()
	writeStats()
	os.Exit(code)
}
