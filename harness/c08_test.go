package props

import (
	"fmt"
	"os"
	"runtime"
	"sort"
	"strings"
	"sync"
	"testing"
	"time"

	"github.com/0xrawsec/sod"
	"github.com/0xrawsec/sod/vshim"
	"github.com/anishathalye/porcupine"
	"pgregory.net/rapid"
)

// ---------------------------------------------------------------- C08: linearizable and race free

type lobj struct {
	d *Doc
	c string
}

type linState map[string]lobj // immutable: copied on write

func (s linState) with(id string, d *Doc) linState {
	n := make(linState, len(s)+1)
	for k, v := range s {
		n[k] = v
	}
	n[id] = lobj{d, canon(d)}
	return n
}

func (s linState) without(id string) linState {
	n := make(linState, len(s))
	for k, v := range s {
		if k != id {
			n[k] = v
		}
	}
	return n
}

func (s linState) model(cfg Config) *Model {
	m := NewModel(cfg)
	for id, o := range s {
		m.objs[id] = o.d
	}
	return m
}

// linModel is the sequential specification handed to porcupine.
func linModel(cfg Config, init linState) porcupine.Model {
	return porcupine.Model{
		Init: func() interface{} { return init },
		Equal: func(a, b interface{}) bool {
			x, y := a.(linState), b.(linState)
			if len(x) != len(y) {
				return false
			}
			for k, v := range x {
				if w, ok := y[k]; !ok || w.c != v.c {
					return false
				}
			}
			return true
		},
		Step: func(state, in, out interface{}) (bool, interface{}) {
			s := state.(linState)
			ev := out.(Event)
			switch ev.Op.Kind {
			case "get", "getByUUID":
				o, ok := s[ev.ID]
				if !ok {
					return ev.Class == ENotExist, s
				}
				return ev.Class == OK && ev.Val == o.c, s
			case "exist":
				_, ok := s[ev.ID]
				return ev.Class == OK && ev.Bool == ok, s
			case "count", "iterCount":
				return ev.Class == OK && ev.N == len(s), s
			case "all", "assignAll":
				want := make([]string, 0, len(s))
				for id, o := range s {
					want = append(want, id+":"+o.c)
				}
				sort.Strings(want)
				if ev.Class != OK || len(want) != len(ev.Set) {
					return false, s
				}
				for i := range want {
					if want[i] != ev.Set[i] {
						return false, s
					}
				}
				return true, s
			case "assignIndex":
				m := s.model(cfg)
				all := map[string]bool{}
				for id := range s {
					all[id] = true
				}
				ks := m.sortedKeys(all, docPathIndex[ev.Op.Path], false)
				ss := make([]string, len(ks))
				for i, k := range ks {
					ss[i] = keyString(k)
				}
				return ev.Keys == strings.Join(ss, " "), s
			case "searchLen":
				set, cls := s.model(cfg).Eval(*ev.Op.Q)
				if cls != OK {
					return ev.Class != OK || ev.N == 0, s
				}
				return ev.Class == OK && ev.N == len(set), s
			case "insert", "update":
				m := s.model(cfg)
				id := ""
				if ev.Op.Kind == "update" {
					id = ev.ID
				}
				want, tv := m.Upsert(ev.Op.D, id)
				if ev.Class != want {
					return false, s
				}
				if want != OK {
					return true, s
				}
				if ev.Op.Kind == "insert" {
					if _, used := s[ev.ID]; used || ev.ID == "" {
						return false, s
					}
				}
				return true, s.with(ev.ID, tv)
			case "delete":
				return ev.Class == OK, s.without(ev.ID)
			case "many":
				m := s.model(cfg)
				tmp := map[string]*Doc{}
				ns := s
				cls := OK
				for i, mem := range ev.Op.Batch {
					id := ev.IDs[i]
					if mem.Kind == "insert" {
						if _, used := s[id]; used || id == "" {
							return false, s
						}
					}
					d := cloneDoc(mem.D)
					d.Initialize(id)
					if c := m.prepare(d); c != OK {
						cls = c
						break
					}
					if m.conflicts(d, id, tmp) || m.conflicts(d, id, m.objs) {
						cls = EUnique
						break
					}
					tmp[id] = d
					ns = ns.with(id, d)
				}
				if cls != OK {
					return ev.Class == cls && ev.N == 0, s
				}
				return ev.Class == OK && ev.N == len(ev.Op.Batch), ns
			}
			// schema, control, ...: no observable effect
			return true, s
		},
		DescribeOperation: func(in, out interface{}) string {
			ev := out.(Event)
			return fmt.Sprintf("w%d %s id=%s -> %s n=%d", ev.Worker, ev.Op.Kind, ev.ID, ev.Class, ev.N)
		},
	}
}

func c08Profile() *Profile {
	return &Profile{
		Property: "C08", MaxOps: 6,
		W:          map[string]int{"insert": 8, "update": 2, "delete": 1, "many": 1},
		AllowCache: true, AllowCompress: true, AllowAsync: true,
		MaxIndexed: 3, MaxUnique: 1, TinyBias: 75, BigBias: 5, MaxLeaves: 2,
	}
}

func TestC08(t *testing.T) {
	if os.Getenv("VERIF_VARIANT") != "race" {
		t.Skip("needs the race build")
	}
	st := statsFor("C08")
	st.Rule = "a sequential prefix builds state; then either the handle is kept warm or it is closed and re-opened so that the workers' calls are the FIRST access after Open; then 2-4 goroutines x 1-4 calls run concurrently, each program several times under GOMAXPROCS 2/4/16, in sync, cached and async configurations (flusher running on a 50x scaled clock), with synchronisation-free random yields before every file-system call of the package. The binary is built with -race from a copy in which only time.Sleep is redirected; workers share nothing with each other in the harness (own event buffers, monotonic clock). Two program classes: 'lin' - calls whose inputs/outputs are fully observable atomic pieces (Get, GetByUUID, Exist, Count, All, AssignAll, AssignIndex, Search+Len, InsertOrUpdate, update, Delete, InsertOrUpdateMany, Schema, Control): the recorded call/return history, closed by a sequential sweep (Count, All, Get of every uuid), must be accepted by porcupine against the reference model; additional generated program classes: 'contention' (writers race for the same unique values with the conflicting member not first in their batches), 'readers' (read-only workers, different patterns on the same indexed fields), 'flushers' (concurrent Flush/FlushAll/FlushAllAndCommit/Commit of the same pending objects: every call must succeed), 'batchreaders' (one worker rewrites all objects in one batch while the others read them in batch order with the cache on; checked by porcupine), 'creators' (all workers create the same new collection first and insert into it: every accepted insert must be counted); a second collection on the handle and settings switches (Create) are worker ops as well; after every execution a final-consistency invariant holds: everything flushed => Control nil, Count == All == object files, every file decodes to what the handle reads. 'race' - ALL public entry points incl. And/Or chains, Collect, One, Search.Delete, DeleteAll, Bulk, Flush*, Commit, Create, Repair: no race report, no crash. Oracle: (1) the race detector (GORACE halt_on_error: the process stops at the first report, the journaled case is the replay), (2) porcupine (Unknown = inconclusive). Non-trivial: >= 2 workers with >= 1 writer whose call overlaps another call in real time. Distinct by program hash."
	st.Assumptions = append(baseAssumptions(), "schedules are sampled, not enumerated; the race detector is happens-before based, so a missing lock is reported whenever both accesses occur in one run, whatever the interleaving")
	prof := c08Profile()
	rapid.Check(t, func(rt *rapid.T) {
		g := NewG(rt, prof)
		prog := g.Program()
		lin := g.pct("lin") < 55
		kinds := allKinds
		if lin {
			kinds = linKinds
		}
		genConc(g, prog, kinds, 4, 4)
		if x := g.pct("contend"); lin && x < 30 {
			genContend(g, prog)
		} else if lin && x < 45 {
			genBatchReaders(g, prog)
		}
		if !lin {
			switch x := g.pct("class"); {
			case x < 15:
				genReaders(g, prog)
			case x < 27:
				genFlushers(g, prog)
			case x < 37:
				genCreators(g, prog)
			}
		}
		prog.Aux["lin"] = lin
		prog.Aux["procs"] = pickU(g, []int{2, 4, 16}, "procs")
		guard(rt, prog, func() { caseC08(rt, prog) })
	})
}

func caseC08(t TB, prog *Program) {
	st := statsFor("C08")
	ws := workersOf(prog)
	lin, _ := prog.Aux["lin"].(bool)
	warm, _ := prog.Aux["warm"].(bool)
	procs := 4
	if v, ok := prog.Aux["procs"].(float64); ok {
		procs = int(v)
	} else if v, ok := prog.Aux["procs"].(int); ok {
		procs = v
	}
	intensity := 100
	if v, ok := prog.Aux["intensity"].(float64); ok {
		intensity = int(v)
	} else if v, ok := prog.Aux["intensity"].(int); ok {
		intensity = v
	}
	old := runtime.GOMAXPROCS(procs)
	defer runtime.GOMAXPROCS(old)
	reps := pick(2, 4)
	flags := map[string]int{}
	overlap := false
	for rep := 0; rep < reps; rep++ {
		vshim.SetClock(vshim.ClockScaled, 50)
		vshim.SetIntensity(0)
		e := NewEnv(t, prog, RunOpts{NoObs: true})
		if err := e.db.Create(&Other{}, sod.DefaultSchema); err != nil {
			e.failf("Create second collection: %v", err)
		}
		e.Run()
		known := append([]string(nil), e.m.live...)
		base := map[string]*Doc{}
		init := linState{}
		for id, d := range e.m.objs {
			base[id] = d
			init[id] = lobj{d, canon(d)}
		}
		if !warm {
			// the workers' calls are the first access after Open
			if err := e.db.Close(); err != nil {
				e.failf("Close: %v", err)
			}
			e.db = sod.Open(e.root)
			flags["first-access-after-open"] = 1
		}
		db := e.db
		// everything the workers read from the harness is written before they start
		vshim.SetIntensity(intensity)
		evs := make([][]Event, len(ws))
		var wg sync.WaitGroup
		t0 := time.Now()
		for w := range ws {
			w := w
			wg.Add(1)
			go func() {
				defer wg.Done()
				runWorker(db, e, w, ws[w], known, base, t0, &evs[w])
			}()
		}
		done := make(chan struct{})
		go func() { wg.Wait(); close(done) }()
		select {
		case <-done:
		case <-time.After(120 * time.Second):
			st.Add("inconclusive_no_progress", 1) // blocking is C09's business
			return
		}
		vshim.SetIntensity(0)
		var hist []Event
		for _, l := range evs {
			hist = append(hist, l...)
		}
		for _, ev := range hist {
			if ev.Op.Kind == "flushOne" && ev.Class != OK {
				e.failf("concurrent Flush of the stored object %s failed: %s (execution %d)", ev.ID, ev.Val, rep)
			}
		}
		// overlap statistics
		for i := range hist {
			for j := range hist {
				a, b := hist[i], hist[j]
				if a.Worker != b.Worker && a.Call < b.Ret && b.Call < a.Ret {
					switch a.Op.Kind {
					case "insert", "update", "delete", "many", "bulk", "deleteAll", "searchDelete":
						overlap = true
					}
				}
			}
		}
		if lin {
			// close the history with a sequential observation sweep
			ids := map[string]bool{}
			for _, id := range known {
				ids[id] = true
			}
			for _, ev := range hist {
				if ev.ID != "" {
					ids[ev.ID] = true
				}
				for _, id := range ev.IDs {
					if id != "" {
						ids[id] = true
					}
				}
			}
			var sweep []COp
			sweep = append(sweep, COp{Kind: "count"}, COp{Kind: "all"})
			idl := make([]string, 0, len(ids))
			for id := range ids {
				idl = append(idl, id)
			}
			sort.Strings(idl)
			var final []Event
			runWorker(db, e, len(ws), sweep, known, base, t0, &final)
			for i, id := range idl {
				runWorker(db, e, len(ws), []COp{{Kind: "get", Ref: i}}, idl, base, t0, &final)
				_ = id
			}
			hist = append(hist, final...)
			var ops []porcupine.Operation
			for _, ev := range hist {
				ops = append(ops, porcupine.Operation{ClientId: ev.Worker, Input: ev, Call: ev.Call, Output: ev, Return: ev.Ret})
			}
			res := porcupine.CheckOperationsTimeout(linModel(e.cfg, init), ops, 20*time.Second)
			switch res {
			case porcupine.Illegal:
				var lines []string
				sort.Slice(hist, func(i, j int) bool { return hist[i].Call < hist[j].Call })
				for _, ev := range hist {
					lines = append(lines, fmt.Sprintf("  w%d [%d..%d] %s id=%s -> %s n=%d bool=%v val=%.60s", ev.Worker, ev.Call, ev.Ret, ev.Op.Kind, ev.ID, ev.Class, ev.N, ev.Bool, ev.Val))
				}
				e.failf("history is not linearizable with respect to the reference model (execution %d, GOMAXPROCS %d):\n%s", rep, procs, strings.Join(lines, "\n"))
			case porcupine.Unknown:
				st.Add("inconclusive_porcupine_timeout", 1)
			default:
				st.Add("histories_accepted_by_porcupine", 1)
			}
		}
		if on, _ := prog.Aux["creators"].(bool); on {
			// every accepted insert into the collection the workers raced to create is stored
			accepted := 0
			for _, ev := range hist {
				if ev.Op.Kind == "o2create" && ev.Class != OK {
					e.failf("concurrent first Create of a collection failed: %s (execution %d)", ev.Class, rep)
				}
				if ev.Op.Kind == "o2insert" {
					if ev.Class != OK {
						e.failf("insert into a collection this worker had created before failed: %s (execution %d)", ev.Class, rep)
					}
					accepted++
				}
			}
			if n, err := db.Count(&Other2{}); err != nil || n != accepted {
				e.failf("%d workers created a new collection concurrently and inserted %d objects, all accepted; Count reports %d (err=%v) (execution %d)", len(ws), accepted, n, err, rep)
			}
			if objs, err := db.All(&Other2{}); err != nil || len(objs) != accepted {
				e.failf("%d workers created a new collection concurrently and inserted %d objects, all accepted; All returns %d (err=%v) (execution %d)", len(ws), accepted, len(objs), err, rep)
			}
			flags["class-creators"] = 1
		}
		finalConsistency(e, db)
		e.Teardown()
		st.Add("executions", 1)
	}
	for _, w := range ws {
		for _, op := range w {
			flags["entry-"+op.Kind] = 1
		}
	}
	if lin {
		flags["class-lin"] = 1
	} else {
		flags["class-race"] = 1
	}
	flags[fmt.Sprintf("gomaxprocs-%d", procs)] = 1
	st.Case(prog.Hash(), len(ws) >= 2 && overlap, flags, func() interface{} { return prog })
}

func init() {
	replayers["C08"] = func(t *testing.T, prog *Program) { guardT(t, prog, func() { caseC08(t, prog) }) }
}

// genContend: writers race for the same unique values with the conflicting
// member NOT in first position of their batches - the shape that exposes a
// check-then-act window between validation and insertion.
func genContend(g *G, prog *Program) {
	prog.Cfg.Cons = map[string]Cons{"U8": {Index: true, Unique: true}}
	prog.Cfg.Async = nil
	if len(prog.Ops) > 2 {
		prog.Ops = prog.Ops[:2]
	}
	nw := 2 + g.uni(3, "cworkers")
	var ws [][]COp
	for w := 0; w < nw; w++ {
		var ops []COp
		for i, n := 0, 1+g.uni(2, "cops"); i < n; i++ {
			var batch []COp
			for k, m := 0, 1+g.uni(3, "cfresh"); k < m; k++ {
				batch = append(batch, COp{Kind: "insert", D: &Doc{U8: uint8(20 + w*40 + i*10 + k), S: "fresh"}})
			}
			batch = append(batch, COp{Kind: "insert", D: &Doc{U8: uint8(4 + g.uni(2, "shared")), S: "contended"}})
			if g.pct("single") < 25 {
				ops = append(ops, COp{Kind: "insert", D: batch[len(batch)-1].D})
			} else {
				ops = append(ops, COp{Kind: "many", Batch: batch})
			}
		}
		ws = append(ws, ops)
	}
	prog.Aux["workers"] = ws
	prog.Aux["contend"] = true
}

// genReaders: read-only workers hammering the same indexed fields, mostly with
// pattern searches using different patterns (anything memoised or mutated under the
// read lock shows up as a race between pure readers).
func genReaders(g *G, prog *Program) {
	prog.Cfg.Cons = map[string]Cons{"S": {Index: true}, "S2": {Index: true}, "I64": {Index: true}}
	pats := []string{"a", "^a", "b$", ".*", "[aA]", "A+", "a|b", "^(a|A)b?$", "x", "^$"}
	nw := 2 + g.uni(3, "rworkers")
	var ws [][]COp
	for w := 0; w < nw; w++ {
		var ops []COp
		for i, n := 0, 2+g.uni(4, "rops"); i < n; i++ {
			path := pickU(g, []string{"S", "S", "S2"}, "rpath")
			switch g.uni(6, "rkind") {
			case 0:
				ops = append(ops, COp{Kind: "assignIndex", Path: path})
			case 1:
				ops = append(ops, COp{Kind: "all"})
			case 2:
				ops = append(ops, COp{Kind: "searchChain", Q: &Query{Leaves: []Leaf{{Path: "I64", Op: "!=", V: Val{K: "i", I: -5}}, {Conn: "and", Path: path, Op: "~=", V: Val{K: "s", S: pickU(g, pats, "pat")}}}}})
			default:
				ops = append(ops, COp{Kind: pickU(g, []string{"searchLen", "searchCollect"}, "rk"), Q: &Query{Leaves: []Leaf{{Path: path, Op: "~=", V: Val{K: "s", S: pickU(g, pats, "pat")}}}}})
			}
		}
		ws = append(ws, ops)
	}
	prog.Aux["workers"] = ws
	prog.Aux["readers"] = true
}

// genFlushers: several goroutines flush the same pending objects at the same time
// (Flush / FlushAll / FlushAllAndCommit / Commit); every call must succeed and the
// files must be complete afterwards (finalConsistency decodes them).
func genFlushers(g *G, prog *Program) {
	prog.Cfg.Async = &AsyncCfg{Threshold: 8, TimeoutMs: 2000}
	nw := 2 + g.uni(3, "fworkers")
	var ws [][]COp
	for w := 0; w < nw; w++ {
		var ops []COp
		for i, n := 0, 2+g.uni(4, "fops"); i < n; i++ {
			ops = append(ops, COp{Kind: pickU(g, []string{"flushOne", "flushOne", "flushOne", "flushAll", "flushAllCommit", "commit", "get"}, "fk"), Ref: g.uni(3, "fref")})
		}
		ws = append(ws, ops)
	}
	prog.Aux["workers"] = ws
	prog.Aux["flushers"] = true
	prog.Aux["warm"] = true
}

// genBatchReaders: one worker rewrites all stored objects in one batch, the others read them
// one by one in batch order, slightly behind: a reader that sees the new value of an earlier
// member and then the old value of a later one has looked into the middle of the batch
// (porcupine rejects the history). The cache is on, so reads may be served without the file.
func genBatchReaders(g *G, prog *Program) {
	prog.Cfg.Cache = true
	prog.Cfg.Async = nil
	prog.Cfg.Cons = map[string]Cons{"I64": {Index: true}}
	n := 3 + g.uni(3, "brobjs")
	prog.Ops = nil
	for i := 0; i < n; i++ {
		prog.Ops = append(prog.Ops, Op{Op: "insert", D: &Doc{I64: int64(i), S2: "old"}})
	}
	var ws [][]COp
	var writer []COp
	for r, m := 0, 2+g.uni(3, "brbatches"); r < m; r++ {
		var batch []COp
		for i := 0; i < n; i++ {
			batch = append(batch, COp{Kind: "update", Ref: i, Sets: []FieldSet{{Path: "S2", V: Val{K: "s", S: fmt.Sprint("new", r)}}}})
		}
		writer = append(writer, COp{Kind: "many", Batch: batch})
	}
	ws = append(ws, writer)
	for w, nr := 0, 1+g.uni(3, "brreaders"); w < nr; w++ {
		var ops []COp
		// many rounds: the readers have to be still at it when the batch reaches its write phase
		kind := pickU(g, []string{"get", "get", "getByUUID"}, "brget")
		for r, m := 0, 6+g.uni(10, "brrounds"); r < m; r++ {
			for i := 0; i < n; i++ {
				ops = append(ops, COp{Kind: kind, Ref: i})
			}
		}
		ws = append(ws, ops)
	}
	prog.Aux["workers"] = ws
	prog.Aux["batchreaders"] = true
	prog.Aux["warm"] = true
}

// genCreators: every worker creates the same, not yet existing collection and then inserts
// into it: whoever comes second must find the collection of the first, not replace it.
func genCreators(g *G, prog *Program) {
	nw := 2 + g.uni(3, "crworkers")
	var ws [][]COp
	for w := 0; w < nw; w++ {
		ops := []COp{{Kind: "o2create"}}
		for i, n := 0, 1+g.uni(3, "crins"); i < n; i++ {
			ops = append(ops, COp{Kind: "o2insert", Ref: i})
		}
		if g.pct("crtail") < 40 {
			ops = append(ops, g.COp([]string{"insert", "count", "all"}))
		}
		ws = append(ws, ops)
	}
	prog.Aux["workers"] = ws
	prog.Aux["creators"] = true
}
