package props

import (
	"encoding/json"
	"flag"
	"fmt"
	"io"
	"os"
	"path/filepath"
	"sort"
	"strconv"
	"testing"

	"github.com/0xrawsec/sod"
	"pgregory.net/rapid"
)

// ---------------------------------------------------------------- C18: on-disk layout, golden corpus

type goldenExpected struct {
	Cfg     Config            `json:"cfg"`
	Order   []string          `json:"order"`   // uuids in creation order
	Objects map[string]string `json:"objects"` // uuid -> canonical JSON
	Program *Program          `json:"program"` // how the pinned release was driven
	Pinned  string            `json:"pinned"`
}

func copyTree(src, dst string) error {
	return filepath.Walk(src, func(p string, info os.FileInfo, err error) error {
		if err != nil {
			return err
		}
		rel, _ := filepath.Rel(src, p)
		target := filepath.Join(dst, rel)
		if info.IsDir() {
			return os.MkdirAll(target, 0700)
		}
		in, err := os.Open(p)
		if err != nil {
			return err
		}
		defer in.Close()
		out, err := os.OpenFile(target, os.O_CREATE|os.O_TRUNC|os.O_WRONLY, 0700)
		if err != nil {
			return err
		}
		defer out.Close()
		_, err = io.Copy(out, in)
		return err
	})
}

func goldenProfile() *Profile {
	return &Profile{
		Property: "C18", MaxOps: 14,
		// only what the pinned release handles without tripping over its known defects:
		// no reopen (index precision), no Or queries (index corruption), no queries at all
		W:          map[string]int{"insert": 10, "upsertUUID": 1, "update": 5, "resave": 1, "delete": 3, "many": 2, "bulk": 1, "resurrect": 1},
		AllowAsync: true, AllowCache: true, AllowCompress: true, AllowLower: true,
		MinIndexed: 1, MaxIndexed: 5, MaxUnique: 2, CasePaths: 1,
		TinyBias: 35, BigBias: 30, HookBias: 5, RichShape: 40, MaxLeaves: 1,
	}
}

type skipT struct{ msg string }

func (s *skipT) Fatalf(format string, args ...interface{}) {
	s.msg = fmt.Sprintf(format, args...)
	panic(s)
}
func (s *skipT) Logf(format string, args ...interface{}) {}

// TestGenGolden writes the golden corpus. It is run once, against a build of
// the pinned release (VERIF_REPO=<worktree of e481c06> ./check --build-only ...),
// with GOLDEN_OUT set; it is skipped otherwise.
func TestGenGolden(t *testing.T) {
	out := os.Getenv("GOLDEN_OUT")
	if out == "" {
		t.Skip("GOLDEN_OUT not set")
	}
	want := envInt("GOLDEN_N", 40)
	n := 0
	cover := map[string]int{}
	prof := goldenProfile()
	rapid.Check(t, func(rt *rapid.T) {
		if n >= want {
			return
		}
		prog := NewG(rt, prof).Program()
		st := &skipT{}
		var e *Env
		ok := func() (ok bool) {
			defer func() {
				if r := recover(); r != nil {
					if e != nil {
						e.Teardown()
					}
					ok = false
				}
			}()
			e = NewEnv(st, prog, RunOpts{NoObs: true})
			e.Run()
			return true
		}()
		if !ok {
			return
		}
		defer e.Teardown()
		if len(e.m.objs) < 2 || len(e.cfg.IndexedPaths()) == 0 {
			return
		}
		// favour configurations not yet covered
		key := fmt.Sprintf("cache=%v compress=%v async=%v lower=%v ext=%v", e.cfg.Cache, e.cfg.Compress, e.cfg.Async != nil, e.cfg.Lower, e.cfg.Ext != ".json")
		if cover[key] >= 3 {
			return
		}
		if err := e.db.Close(); err != nil {
			return
		}
		e.db = nil
		// the directory must equal the model as seen by the independent walker
		if p := e.walkProblems(true); len(p) > 0 {
			return
		}
		cover[key]++
		dir := filepath.Join(out, fmt.Sprintf("%02d", n))
		os.RemoveAll(dir)
		if err := copyTree(e.root, filepath.Join(dir, "db")); err != nil {
			t.Fatal(err)
		}
		exp := goldenExpected{Cfg: e.cfg, Order: e.m.live, Objects: map[string]string{}, Program: prog, Pinned: os.Getenv("GOLDEN_PINNED")}
		for id, d := range e.m.objs {
			exp.Objects[id] = canon(d)
		}
		b, _ := json.MarshalIndent(exp, "", " ")
		os.WriteFile(filepath.Join(dir, "expected.json"), b, 0644)
		n++
	})
	t.Logf("wrote %d golden directories, coverage %v", n, cover)
}

func goldenDirs() []string {
	root := os.Getenv("VERIF_GOLDEN")
	if root == "" {
		root = "/verif/golden"
	}
	ents, _ := os.ReadDir(root)
	var out []string
	for _, en := range ents {
		if en.IsDir() {
			if _, err := os.Stat(filepath.Join(root, en.Name(), "expected.json")); err == nil {
				out = append(out, filepath.Join(root, en.Name()))
			}
		}
	}
	sort.Strings(out)
	return out
}

func loadGolden(dir string) (*goldenExpected, *Model, error) {
	b, err := os.ReadFile(filepath.Join(dir, "expected.json"))
	if err != nil {
		return nil, nil, err
	}
	exp := &goldenExpected{}
	if err := json.Unmarshal(b, exp); err != nil {
		return nil, nil, err
	}
	m := NewModel(exp.Cfg)
	for _, id := range exp.Order {
		d := &Doc{}
		if err := json.Unmarshal([]byte(exp.Objects[id]), d); err != nil {
			return nil, nil, err
		}
		d.Initialize(id)
		m.objs[id] = d
		m.live = append(m.live, id)
		m.last[id] = cloneDoc(d)
	}
	return exp, m, nil
}

var c18Opts = RunOpts{SweepLevel: 2, SweepEveryOp: false, Control: true, Walk: true, DiffReopen: true,
	FocusPaths: []string{"S", "I64", "T", "U64", "F64", "Pt.S"}}

// caseC18Golden: a directory written by the pinned release opens under the
// current code with identical contents, search behaviour and constraints, and
// stays loadable (and walkable) after further generated writes.
func caseC18Golden(t TB, prog *Program) {
	st := statsFor("C18")
	dir, _ := prog.Aux["golden"].(string)
	exp, m, err := loadGolden(dir)
	if err != nil {
		t.Fatalf("harness: golden %s unreadable: %v", dir, err)
	}
	root := newRoot()
	if err := copyTree(filepath.Join(dir, "db"), root); err != nil {
		t.Fatalf("harness: %v", err)
	}
	prog.Cfg = exp.Cfg
	e := EnvFromDir(t, prog, c18Opts, root, m, exp.Order)
	defer e.Teardown()
	// independent decoding first: the corpus itself is what the statement says
	if p := e.walkProblems(true); len(p) > 0 {
		e.failf("golden directory %s does not decode as recorded: %v", dir, p)
	}
	if _, err := e.db.Count(&Doc{}); err != nil {
		e.failf("golden directory %s (written by the pinned release, config %s): first load fails: %v", filepath.Base(dir), canon(exp.Cfg), err)
	}
	e.Check("golden directory " + filepath.Base(dir) + " opened by the current code")
	e.Run() // further generated writes (incl. unique conflicts, reopen) against the model
	if e.cfg.Async != nil {
		if err := e.db.FlushAllAndCommit(&Doc{}); err != nil {
			e.failf("FlushAllAndCommit: %v", err)
		}
		e.dirty = false
	}
	e.reopen("final reopen", false)
	e.Check("golden directory after further writes and reopen")
	e.walkCheck("golden directory after further writes and reopen")
	e.flag("golden")
	cfgFlags(e)
	st.Case(prog.Hash(), true, e.flags, func() interface{} {
		return map[string]interface{}{"golden": filepath.Base(dir), "cfg": exp.Cfg, "objects": len(exp.Objects), "further_ops": len(prog.Ops)}
	})
}

// caseC18Fresh: histories under every configuration, directory walked after
// every op at quiescent points.
func caseC18Fresh(t TB, prog *Program) {
	st := statsFor("C18")
	e := NewEnv(t, prog, c18Opts)
	defer e.Teardown()
	for i := range prog.Ops {
		op := &prog.Ops[i]
		if !e.Exec(i, op) {
			continue
		}
		if e.cfg.Async != nil {
			if err := e.db.FlushAllAndCommit(&Doc{}); err != nil {
				e.failf("FlushAllAndCommit: %v", err)
			}
			e.dirty = false
		}
		e.lightCheck(fmt.Sprintf("after op %d (%s)", i, op.Op))
		e.walkCheck(fmt.Sprintf("after op %d (%s)", i, op.Op))
	}
	e.Check("end of program")
	cfgFlags(e)
	nondefault := e.cfg.Cache || e.cfg.Compress || e.cfg.Async != nil || e.cfg.Lower || e.cfg.Ext != ".json"
	nt := len(e.m.objs) >= 2 && len(e.cfg.IndexedPaths()) >= 1 && nondefault
	st.Case(prog.Hash(), nt, e.flags, func() interface{} { return prog })
}

func c18FurtherProfile() *Profile {
	p := *propC01.profile()
	p.Property = "C18"
	p.MaxOps = pick(8, 20)
	return &p
}

func TestC18(t *testing.T) {
	st := statsFor("C18")
	st.Rule = "(a) generated histories under every configuration; after every op (after a flush in async mode) an independent walker (own directory listing, gunzip and encoding/json; no sod code) checks: collection directory named props.Doc / props._doc (snake case, constants recorded from the pinned release), exactly schema.json plus one file <uuid><ext>[.gz] per model object, gzip iff configured, body == plain JSON of the object; schema.json decoded with the walker's own structs: settings, object-ids bijection, one index per indexed path with name/cast, [value,id] tuples in non-increasing order whose values equal the file values. (b) golden corpus: every directory under /verif/golden (written by the pinned release e481c06 under all configurations, with the expected contents recorded next to it) is copied, opened by the current code and must show the recorded objects on every read path, the full search sweep (every operator x every stored value and neighbours on every indexed path and 6 fixed paths), AssignIndex order and Control; then generated further writes (incl. unique conflicts) are applied against the model, the database is reopened, compared again and walked. TestC18Types: /verif/golden-types was written by the pinned release for a struct whose fields are defined types (from time.Time, string, int), containers, an interface slot, an anonymous struct, an array, a pointer and an unexported member: same descriptors, same objects, the same answer (result or error) to ten searches, one more insert, Close, reopen, Control. Non-trivial: (a) >= 2 objects, >= 1 indexed path, non-default configuration; (b) every golden case. Distinct by program hash (golden: directory + further ops)."
	st.Assumptions = append(baseAssumptions(), "the golden corpus was produced by driving the pinned release with generated histories restricted to what it handles without tripping over its since-repaired defects (no reopen, no queries), and each directory was verified against the model by the independent walker before it was recorded")
	t.Run("golden", func(t *testing.T) {
		dirs := goldenDirs()
		if len(dirs) == 0 {
			t.Fatalf("no golden corpus found")
		}
		// golden cases are ~15x more expensive than fresh ones: fewer of them
		if f := flag.Lookup("rapid.checks"); f != nil {
			old := f.Value.String()
			if n, err := strconv.Atoi(old); err == nil {
				flag.Set("rapid.checks", strconv.Itoa(1+n/8))
				defer flag.Set("rapid.checks", old)
			}
		}
		prof := c18FurtherProfile()
		rapid.Check(t, func(rt *rapid.T) {
			g := NewG(rt, prof)
			dir := pickU(g, dirs, "golden")
			exp, _, err := loadGolden(dir)
			if err != nil {
				rt.Fatalf("harness: %v", err)
			}
			// further ops are drawn under the directory's own configuration
			fixed := *prof
			fixed.FixedCfg = &exp.Cfg
			g.p = &fixed
			prog := g.Program()
			prog.Aux = map[string]interface{}{"golden": dir}
			guard(rt, prog, func() { caseC18Golden(rt, prog) })
		})
	})
	t.Run("fresh", func(t *testing.T) {
		prof := c18FurtherProfile()
		prof.MaxOps = pick(10, 24)
		rapid.Check(t, func(rt *rapid.T) {
			prog := NewG(rt, prof).Program()
			guard(rt, prog, func() { caseC18Fresh(rt, prog) })
		})
	})
}

// TestC18GoldenAll opens every golden directory once without further writes
// (exhaustive over the corpus, independent of the random choice above).
func TestC18GoldenAll(t *testing.T) {
	nsh, sh := envInt("VERIF_NSHARDS", 1), envInt("VERIF_SHARD", 0)
	for i, dir := range goldenDirs() {
		if i%nsh != sh {
			continue // the corpus is split over the shards; together they open every directory
		}
		prog := &Program{Property: "C18", Aux: map[string]interface{}{"golden": dir}}
		guardT(t, prog, func() { caseC18Golden(t, prog) })
	}
}

func init() {
	replayers["C18"] = func(t *testing.T, prog *Program) {
		guardT(t, prog, func() {
			if prog.Aux["names"] == true {
				TestC18Names(t)
			} else if _, ok := prog.Aux["golden"]; ok {
				caseC18Golden(t, prog)
			} else {
				caseC18Fresh(t, prog)
			}
		})
	}
}

// ---- directory names of differently shaped type names

type HTTPDoc struct {
	sod.Item
	N int `sod:"index"`
}

type X509 struct {
	sod.Item
	N int `sod:"index"`
}

type T struct {
	sod.Item
	N int `sod:"index"`
}

type Snake_ID2Doc struct {
	sod.Item
	N int `sod:"index"`
}

// (Go identifiers may contain any Unicode letter)
type Café struct {
	sod.Item
	N int `sod:"index"`
}

type ÉtatCivilΩ struct {
	sod.Item
	N int `sod:"index"`
}

func nameTypes() map[string]sod.Object {
	return map[string]sod.Object{"Doc": &Doc{}, "Other": &Other{}, "HTTPDoc": &HTTPDoc{}, "X509": &X509{}, "T": &T{}, "Snake_ID2Doc": &Snake_ID2Doc{},
		"Other2": &Other2{}, "Café": &Café{}, "ÉtatCivilΩ": &ÉtatCivilΩ{}}
}

// dirNamesNow: for every type and both LowercaseNames settings, the directory
// a Create produces.
func dirNamesNow(t TB) map[string]string {
	out := map[string]string{}
	for _, lower := range []bool{false, true} {
		root := newRoot()
		sod.LowercaseNames = lower
		db := sod.Open(root)
		for name, o := range nameTypes() {
			before, _ := os.ReadDir(root)
			if err := db.Create(o, sod.DefaultSchema); err != nil {
				t.Fatalf("Create %s: %v", name, err)
			}
			after, _ := os.ReadDir(root)
			seen := map[string]bool{}
			for _, b := range before {
				seen[b.Name()] = true
			}
			for _, a := range after {
				if !seen[a.Name()] {
					out[fmt.Sprintf("%s/lower=%v", name, lower)] = a.Name()
				}
			}
		}
		db.Close()
		os.RemoveAll(root)
	}
	sod.LowercaseNames = false
	return out
}

// TestGenGoldenNames records the names produced by the pinned release.
func TestGenGoldenNames(t *testing.T) {
	out := os.Getenv("GOLDEN_OUT")
	if out == "" {
		t.Skip("GOLDEN_OUT not set")
	}
	b, _ := json.MarshalIndent(dirNamesNow(t), "", " ")
	if err := os.WriteFile(filepath.Join(out, "names.json"), b, 0644); err != nil {
		t.Fatal(err)
	}
}

// TestC18Names: collection directories are named as the pinned release named them.
func TestC18Names(t *testing.T) {
	st := statsFor("C18")
	root := os.Getenv("VERIF_GOLDEN")
	if root == "" {
		root = "/verif/golden"
	}
	b, err := os.ReadFile(filepath.Join(root, "names.json"))
	if err != nil {
		t.Fatalf("golden names missing: %v", err)
	}
	want := map[string]string{}
	json.Unmarshal(b, &want)
	got := dirNamesNow(t)
	for k, w := range want {
		flags := map[string]int{"directory-name": 1}
		if got[k] != w {
			prog := &Program{Property: "C18", Aux: map[string]interface{}{"names": true}}
			msg := fmt.Sprintf("collection directory of type %s is %q, the pinned release names it %q", k, got[k], w)
			recordFailure(prog, msg)
			t.Fatalf("%s", msg)
		}
		st.Case(uint64(len(k))*1000003+uint64(len(w)), true, flags, func() interface{} { return map[string]string{k: w} })
	}
}
