package props

import (
	"encoding/json"
	"fmt"
	"os"
	"os/exec"
	"path/filepath"
	"sort"
	"testing"
	"time"

	"github.com/0xrawsec/sod"
)

// ---------------------------------------------------------------- C18: a struct of less usual field types
//
// Doc covers the scalar kinds; the directory /verif/golden-types was written by the pinned
// release for a struct whose fields are DEFINED types (from time.Time, string, int), containers,
// an interface slot, an anonymous struct, an array, a pointer and an unexported member. The
// current tree must open it (same descriptors), read the same objects, answer the same searches
// the same way and stay loadable after further writes.

type Stamp time.Time
type PersonName string
type Level int

type GoldenTypes struct {
	sod.Item
	At   Stamp
	Who  PersonName // (defined types cannot carry an index constraint: the release panics on them)
	Lvl  Level
	When time.Time `sod:"index"`
	Tags []string
	Attr map[string]string
	Any  interface{}
	Arr  [2]int
	Sub  struct {
		A int
		B string
	}
	PSub  *SubA
	Ratio float32 `sod:"index"`
	// a tag written with a blank after the comma: the release reads it as "index" plus an option
	// it does not know (and ignores)
	Note   string `sod:"index, lower"`
	hidden int
}

type typesExpected struct {
	Objects  []string          `json:"objects"`  // canon, sorted
	Searches map[string]string `json:"searches"` // query -> sorted uuids or error text class
	Schema   string            `json:"schema_fields"`
}

func typesObjects() []*GoldenTypes {
	var out []*GoldenTypes
	for i := 0; i < 5; i++ {
		o := &GoldenTypes{Who: PersonName([]string{"alice", "bob", "alice", "", "Ünï"}[i]), Lvl: Level(i % 3), When: baseTime.Add(time.Duration(i) * time.Hour),
			Note: []string{"Mixed", "lower", "UPPER", "", "Mixed"}[i], Tags: []string{"t", fmt.Sprint(i)}, Attr: map[string]string{"k": fmt.Sprint(i)}, Arr: [2]int{i, -i}, Ratio: float32(i) / 4}
		o.At = Stamp(baseTime)
		o.Sub.A, o.Sub.B = i, "b"
		if i%2 == 0 {
			o.PSub = &SubA{X: i, Y: "y"}
			o.Any = map[string]interface{}{"n": float64(i)}
		} else {
			o.Any = "s"
		}
		o.Initialize(seedUUID(uint64(0x7e000 + i*4))) // (v4-shaped)
		out = append(out, o)
	}
	return out
}

func typesObserve(db *sod.DB) (*typesExpected, error) {
	exp := &typesExpected{Searches: map[string]string{}}
	all, err := db.All(&GoldenTypes{})
	if err != nil {
		return nil, err
	}
	for _, o := range all {
		exp.Objects = append(exp.Objects, o.UUID()+" "+canon(o))
	}
	sort.Strings(exp.Objects)
	q := func(name string, s *sod.Search) {
		objs, err := s.Collect()
		if err != nil {
			exp.Searches[name] = "error"
			return
		}
		var ids []string
		for _, o := range objs {
			ids = append(ids, o.UUID())
		}
		sort.Strings(ids)
		exp.Searches[name] = fmt.Sprint(ids)
	}
	q("Who=alice (string probe)", db.Search(&GoldenTypes{}, "Who", "=", "alice"))
	q("Who=alice (typed probe)", db.Search(&GoldenTypes{}, "Who", "=", PersonName("alice")))
	q("Who~=^a", db.Search(&GoldenTypes{}, "Who", "~=", "^a"))
	q("Lvl>=1 (int probe)", db.Search(&GoldenTypes{}, "Lvl", ">=", 1))
	q("Lvl>=1 (typed probe)", db.Search(&GoldenTypes{}, "Lvl", ">=", Level(1)))
	q("When>base+1h", db.Search(&GoldenTypes{}, "When", ">", baseTime.Add(time.Hour)))
	q("Ratio<0.5", db.Search(&GoldenTypes{}, "Ratio", "<", float32(0.5)))
	q("Sub.A=2 (unindexed)", db.Search(&GoldenTypes{}, "Sub.A", "=", 2))
	q("PSub.X=2 (through nil)", db.Search(&GoldenTypes{}, "PSub.X", "=", 2))
	q("Tags (container)", db.Search(&GoldenTypes{}, "Tags", "=", "t"))
	q("Note=Mixed", db.Search(&GoldenTypes{}, "Note", "=", "Mixed"))
	q("Note=mixed", db.Search(&GoldenTypes{}, "Note", "=", "mixed"))
	sch, err := db.Schema(&GoldenTypes{})
	if err != nil {
		return nil, err
	}
	var fields []string
	for p, fd := range sch.Fields {
		fields = append(fields, p+":"+fd.Type)
	}
	sort.Strings(fields)
	exp.Schema = fmt.Sprint(fields)
	return exp, nil
}

// TestGenGoldenTypes records golden-types with the release the harness is built against.
func TestGenGoldenTypes(t *testing.T) {
	out := os.Getenv("GOLDEN_OUT")
	if out == "" {
		t.Skip("GOLDEN_OUT not set")
	}
	dir := filepath.Join(out, "golden-types")
	os.RemoveAll(dir)
	sod.LowercaseNames = false
	db := sod.Open(filepath.Join(dir, "db"))
	if err := db.Create(&GoldenTypes{}, sod.DefaultSchema); err != nil {
		t.Fatal(err)
	}
	for _, o := range typesObjects() {
		if err := db.InsertOrUpdate(o); err != nil {
			t.Fatal(err)
		}
	}
	exp, err := typesObserve(db)
	if err != nil {
		t.Fatal(err)
	}
	if err := db.Close(); err != nil {
		t.Fatal(err)
	}
	b, _ := json.MarshalIndent(exp, "", " ")
	if err := os.WriteFile(filepath.Join(dir, "expected.json"), b, 0644); err != nil {
		t.Fatal(err)
	}
}

// TestC18Types: the directory written by the pinned release opens and behaves the same.
func TestC18Types(t *testing.T) {
	st := statsFor("C18")
	root := os.Getenv("VERIF_GOLDEN")
	if root == "" {
		root = "/verif/golden"
	}
	src := filepath.Join(filepath.Dir(root), "golden-types") // (next to the numbered corpus, not inside it)
	b, err := os.ReadFile(filepath.Join(src, "expected.json"))
	if err != nil {
		t.Fatalf("golden types missing: %v", err)
	}
	want := &typesExpected{}
	if err := json.Unmarshal(b, want); err != nil {
		t.Fatal(err)
	}
	prog := &Program{Property: "C18", Aux: map[string]interface{}{"types": true}}
	fail := func(format string, a ...interface{}) {
		msg := fmt.Sprintf(format, a...)
		recordFailure(prog, msg)
		t.Fatalf("%s", msg)
	}
	work := newRoot()
	defer os.RemoveAll(work)
	if out, err := exec.Command("cp", "-r", filepath.Join(src, "db"), filepath.Join(work, "db")).CombinedOutput(); err != nil {
		t.Fatalf("copy: %v %s", err, out)
	}
	sod.LowercaseNames = false
	db := sod.Open(filepath.Join(work, "db"))
	defer func() { db.Close() }()
	if err := db.Create(&GoldenTypes{}, sod.DefaultSchema); err != nil {
		fail("directory written by the pinned release: Create with the schema derived from the same struct returns %v", err)
	}
	if n, err := db.Count(&GoldenTypes{}); err != nil || n != len(want.Objects) {
		fail("directory written by the pinned release for a struct of defined / container / interface field types: Count=%d err=%v, want %d objects", n, err, len(want.Objects))
	}
	got, err := typesObserve(db)
	if err != nil {
		fail("directory written by the pinned release: %v", err)
	}
	if fmt.Sprint(got.Objects) != fmt.Sprint(want.Objects) {
		fail("directory written by the pinned release: objects read\n  %v\nthe release wrote\n  %v", got.Objects, want.Objects)
	}
	if got.Schema != want.Schema {
		fail("field descriptors of the struct differ from those the pinned release derived:\n  now      %s\n  release  %s", got.Schema, want.Schema)
	}
	for k, w := range want.Searches {
		if got.Searches[k] != w {
			fail("search %q on the directory written by the pinned release returns %s, the release returned %s", k, got.Searches[k], w)
		}
	}
	// further writes, Close, reopen
	extra := typesObjects()[1]
	extra.Initialize(seedUUID(0x7e100))
	extra.Who = "carol"
	if err := db.InsertOrUpdate(extra); err != nil {
		fail("insert into the directory written by the pinned release: %v", err)
	}
	if err := db.Close(); err != nil {
		fail("Close: %v", err)
	}
	db = sod.Open(filepath.Join(work, "db"))
	if n, err := db.Count(&GoldenTypes{}); err != nil || n != len(want.Objects)+1 {
		fail("after one more insert, Close and Open: Count=%d err=%v", n, err)
	}
	if err := db.Control(); err != nil {
		fail("after one more insert, Close and Open: Control: %v", err)
	}
	st.Case(0x7e7e, true, map[string]int{"golden-types-directory": 1}, func() interface{} { return prog })
}
