package props

import (
	"encoding/json"
	"strings"
	"unicode"
)

var unicodeLetters = []*unicode.RangeTable{unicode.Latin, unicode.Greek, unicode.Cyrillic, unicode.Armenian, unicode.Nd}

func swapCase(s string) string {
	r := []rune(s)
	for i, c := range r {
		if unicode.IsUpper(c) {
			r[i] = unicode.ToLower(c)
		} else {
			r[i] = unicode.ToUpper(c)
		}
	}
	return string(r)
}

func toValid(s string) string { return strings.ToValidUTF8(s, "?") }

func reJSON(in interface{}, out interface{}) error {
	b, err := json.Marshal(in)
	if err != nil {
		return err
	}
	return json.Unmarshal(b, out)
}

func reJSONString(in string, out interface{}) error { return json.Unmarshal([]byte(in), out) }
