package props

import (
	"strings"
	"unicode"
)

var unicodeLetters = []*unicode.RangeTable{unicode.Latin, unicode.Greek, unicode.Cyrillic, unicode.Armenian, unicode.Nd}

func swapCase(s string) string {
	r := []rune(s)
	for i, c := range r {
		if unicode.IsUpper(c) {
			r[i] = unicode.ToLower(c)
		} else {
			r[i] = unicode.ToUpper(c)
		}
	}
	return string(r)
}

func toValid(s string) string { return strings.ToValidUTF8(s, "?") }
