package props

import (
	"crypto/sha256"
	"flag"
	"fmt"
	"os"
	"sort"
	"strconv"
	"testing"
	"time"

	"github.com/0xrawsec/sod"
	"pgregory.net/rapid"
)

// ---------------------------------------------------------------- C12 on a big collection
//
// One program, two storage configurations, 8 300 - 9 500 small objects: whatever in the
// library depends on how many objects were cached, queued or indexed (bounds, growth,
// eviction) must not change what the calls return. The two traces must be equal line by line
// and equal to a map model.

type massCfg struct {
	Cache     bool `json:"cache"`
	Compress  bool `json:"compress"`
	Async     bool `json:"async"`
	Threshold int  `json:"threshold"`
	TimeoutMs int  `json:"timeout_ms"`
}

type mass12Params struct {
	N      int     `json:"n"`
	Chunk  int     `json:"chunk"`
	Stride int     `json:"stride"`
	Upd    int     `json:"upd"`
	Del    int     `json:"del"`
	A      massCfg `json:"a"`
	B      massCfg `json:"b"`
}

func TestC12Mass(t *testing.T) {
	// a case stores about 9 000 objects twice: in the quick tier only every fourth shard runs it
	if sh := envInt("VERIF_SHARD", 0); !thorough() && sh%4 != 0 {
		t.Skip("quick tier: run by shards 0, 4, ...")
	}
	if f := flag.Lookup("rapid.checks"); f != nil {
		old := f.Value.String()
		if n, err := strconv.Atoi(old); err == nil {
			flag.Set("rapid.checks", strconv.Itoa(1+n/pick(300, 150)))
			defer flag.Set("rapid.checks", old)
		}
	}
	rapid.Check(t, func(rt *rapid.T) {
		g := NewG(rt, &Profile{Property: "C12"})
		cfg := func(tag string) massCfg {
			c := massCfg{Cache: g.pct(tag+"cache") < 50, Compress: g.pct(tag+"compress") < 10, Async: g.pct(tag+"async") < 60}
			if c.Async {
				// big thresholds / long timeouts keep many writes pending
				c.Threshold = pickU(g, []int{50, 1000, 20000, 100000}, tag+"thr")
				c.TimeoutMs = pickU(g, []int{100, 1000, 3600000}, tag+"to")
			}
			return c
		}
		n := 8300 + g.uni(1200, "n")
		p := mass12Params{N: n, Chunk: 200 + g.uni(1800, "chunk"), Stride: coprimeFrom(1+g.uni(n, "stride"), n),
			Upd: g.uni(60, "upd"), Del: g.uni(60, "del"), A: cfg("a"), B: cfg("b")}
		if p.A == p.B {
			p.B.Async = !p.B.Async
			p.B.Threshold, p.B.TimeoutMs = 100000, 3600000
		}
		prog := &Program{Property: "C12", Aux: map[string]interface{}{"mass12": p}}
		guard(rt, prog, func() { caseC12Mass(rt, prog) })
	})
}

func runMass12(p mass12Params, c massCfg, fail func(string, ...interface{})) []string {
	var trace []string
	tr := func(format string, a ...interface{}) { trace = append(trace, fmt.Sprintf(format, a...)) }
	root := newRoot()
	defer os.RemoveAll(root)
	sod.LowercaseNames = false
	db := sod.Open(root)
	defer db.Close()
	schema := sod.DefaultSchema
	schema.Cache, schema.Compress = c.Cache, c.Compress
	if c.Async {
		schema.Asynchrone(c.Threshold, time.Duration(c.TimeoutMs)*time.Millisecond)
	}
	if err := db.Create(&Mass{}, schema); err != nil {
		fail("Create: %v", err)
	}
	// caller-chosen uuids make the two runs comparable object by object
	model := map[string]*Mass{}
	var ids []string
	var batch []sod.Object
	flush := func() {
		if len(batch) == 0 {
			return
		}
		n, err := db.InsertOrUpdateMany(batch...)
		tr("many %d -> n=%d %s", len(batch), n, classify(err))
		batch = batch[:0]
	}
	for i := 0; i < p.N; i++ {
		k := int64((i * p.Stride) % p.N)
		o := &Mass{K: k, S: fmt.Sprint("s", k%7), F: float64(k%13) / 4}
		o.Initialize(seedUUID(uint64(0x100000 + i)))
		ids = append(ids, o.UUID())
		c := *o
		model[o.UUID()] = &c
		batch = append(batch, o)
		if len(batch) >= p.Chunk {
			flush()
		}
	}
	flush()
	// updates and deletes spread over the collection (old and recent objects)
	for i := 0; i < p.Upd; i++ {
		id := ids[(i*7919+p.N/2)%len(ids)]
		m := model[id]
		if m == nil {
			continue
		}
		o := &Mass{K: m.K, S: "upd", F: m.F + 100}
		o.Initialize(id)
		err := db.InsertOrUpdate(o)
		tr("update %s -> %s", id[:8], classify(err))
		if err == nil {
			c := *o
			model[id] = &c
		}
	}
	for i := 0; i < p.Del; i++ {
		id := ids[(i*104729+p.N-1)%len(ids)]
		if model[id] == nil {
			continue
		}
		o := &Mass{}
		o.Initialize(id)
		err := db.Delete(o)
		tr("delete %s -> %s", id[:8], classify(err))
		delete(model, id)
	}
	// ---- observations
	n, err := db.Count(&Mass{})
	tr("count %d %s", n, classify(err))
	if err != nil || n != len(model) {
		fail("Count=%d err=%v, the model holds %d objects (configuration %+v)", n, err, len(model), c)
	}
	all, err := db.All(&Mass{})
	h := sha256.New()
	var lines []string
	for _, o := range all {
		lines = append(lines, o.UUID()+canon(o))
	}
	sort.Strings(lines)
	for _, l := range lines {
		h.Write([]byte(l))
	}
	tr("all %d %s %x", len(all), classify(err), h.Sum(nil)[:8])
	if err != nil || len(all) != len(model) {
		fail("All returns %d objects, err=%v; the model holds %d (configuration %+v)", len(all), err, len(model), c)
	}
	for _, o := range all {
		m := model[o.UUID()]
		if m == nil || canon(o) != canon(m) {
			fail("All returns %s for %s, the model has %v (configuration %+v)", canon(o), o.UUID(), m != nil, c)
		}
	}
	// Get / Exist: the oldest, the newest and a spread in between
	sample := append([]string{}, ids[:40]...)
	sample = append(sample, ids[len(ids)-40:]...)
	for i := 40; i < len(ids)-40; i += len(ids) / 150 {
		sample = append(sample, ids[i])
	}
	for _, id := range sample {
		probe := &Mass{}
		probe.Initialize(id)
		ok, eerr := db.Exist(probe)
		got, gerr := db.Get(probe)
		m := model[id]
		tr("exist %s %v %s / get %s", id[:8], ok, classify(eerr), classify(gerr))
		if m == nil {
			if ok || gerr == nil {
				fail("%s was deleted; Exist=%v, Get err=%v (configuration %+v)", id, ok, gerr, c)
			}
			continue
		}
		if !ok || eerr != nil || gerr != nil || canon(got) != canon(m) {
			fail("object %s (accepted, not deleted): Exist=%v err=%v, Get err=%v (configuration %+v)", id, ok, eerr, gerr, c)
		}
	}
	for v := 0; v < 7; v++ {
		s := db.Search(&Mass{}, "S", "=", fmt.Sprint("s", v))
		objs, err := s.Collect()
		want := 0
		for _, m := range model {
			if m.S == fmt.Sprint("s", v) {
				want++
			}
		}
		tr("search S=s%d len=%d collected=%d %s", v, s.Len(), len(objs), classify(err))
		if err != nil || len(objs) != want {
			fail("Search(S = s%d) collects %d objects (err=%v), %d stored objects have that value (configuration %+v)", v, len(objs), err, want, c)
		}
	}
	// a pattern search over the whole (indexed) field: every object, in index order
	if robjs, rerr := db.Search(&Mass{}, "S", "~=", "^(s|upd)").Collect(); rerr != nil || len(robjs) != len(model) {
		fail("Search(S ~= ^(s|upd)) collects %d objects (err=%v), %d are stored (configuration %+v)", len(robjs), rerr, len(model), c)
	} else {
		for i := 1; i < len(robjs); i++ {
			if robjs[i-1].(*Mass).S < robjs[i].(*Mass).S {
				fail("Search(S ~= ^(s|upd)) on %d objects is not in index order: result %d has S=%q, result %d has S=%q (configuration %+v)", len(robjs), i-1, robjs[i-1].(*Mass).S, i, robjs[i].(*Mass).S, c)
			}
		}
		tr("regex all %d", len(robjs))
	}
	var keys []int64
	err = db.AssignIndex(&Mass{}, "K", &keys)
	tr("assignindex %d %s", len(keys), classify(err))
	if err != nil || len(keys) != len(model) {
		fail("AssignIndex(K) has %d values (err=%v), want %d (configuration %+v)", len(keys), err, len(model), c)
	}
	if err := db.FlushAllAndCommit(&Mass{}); err != nil {
		fail("FlushAllAndCommit: %v", err)
	}
	tr("control %s", errObs(db.Control()))
	return trace
}

func caseC12Mass(t TB, prog *Program) {
	st := statsFor("C12")
	var p mass12Params
	reJSON(prog.Aux["mass12"], &p)
	fail := func(format string, a ...interface{}) {
		msg := fmt.Sprintf(format, a...)
		recordFailure(prog, msg)
		t.Fatalf("%s\nprogram: %s", msg, prog.JSON())
	}
	ta := runMass12(p, p.A, fail)
	tb := runMass12(p, p.B, fail)
	for i := 0; i < len(ta) || i < len(tb); i++ {
		var a, b string
		if i < len(ta) {
			a = ta[i]
		}
		if i < len(tb) {
			b = tb[i]
		}
		if a != b {
			fail("big collection (%d objects): the traces under %+v and %+v differ at line %d:\n  A: %s\n  B: %s", p.N, p.A, p.B, i, a, b)
		}
	}
	flags := map[string]int{"mass-collection": 1}
	if p.A.Async != p.B.Async {
		flags["twin-async-differs"] = 1
	}
	if p.A.Cache != p.B.Cache {
		flags["twin-cache-differs"] = 1
	}
	st.Case(prog.Hash(), p.A.Async != p.B.Async || p.A.Cache != p.B.Cache, flags, func() interface{} { return prog })
}

func init() {
	replayAlts = append(replayAlts, replayAlt{prop: "C12", match: hasAux("mass12"), run: func(t *testing.T, prog *Program) {
		guardT(t, prog, func() { caseC12Mass(t, prog) })
	}})
}
