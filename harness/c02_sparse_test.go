package props

import (
	"fmt"
	"os"
	"sort"
	"strings"
	"testing"

	"github.com/0xrawsec/sod"
	"pgregory.net/rapid"
)

// ---------------------------------------------------------------- C02 on sparsely encoded objects
//
// Doc always writes every member. Real structs use `json:",omitempty"`, renamed members and
// pointers that are omitted when nil: an object file then simply lacks the member, and whatever
// reads files one after the other must not carry a value over from the previous file.

type SparseIn struct {
	N int64  `json:"n,omitempty"`
	S string `json:",omitempty"`
}

type Sparse struct {
	sod.Item
	K  int64     `json:"k,omitempty" sod:"index"`
	A  int64     `json:"a,omitempty"`
	S  string    `json:"str,omitempty"`
	F  float64   `json:",omitempty"`
	In SparseIn  `json:"in"`
	P  *SparseIn `json:"p,omitempty"`
	L  []string  `json:",omitempty"`
	// two unnamed struct types holding the same field names at different positions
	X struct {
		A int64
		B int64
	}
	Y struct {
		B int64
		A int64
	}
}

type sparseRow struct {
	K, A  int64
	S     string
	F     float64
	InN   int64
	InS   string
	HasP  bool
	PN    int64
	PS    string
	Cache bool
}

func TestC02Sparse(t *testing.T) { sparseProp(t, "C02") }

// TestC01Sparse: the same cases counted for C01 (its read paths - Get and GetByUUID with
// receivers that were used before and still carry data, All - report the last accepted values).
func TestC01Sparse(t *testing.T) { sparseProp(t, "C01") }

func sparseProp(t *testing.T, prop string) {
	rapid.Check(t, func(rt *rapid.T) {
		g := NewG(rt, &Profile{Property: prop, TinyBias: 90, NoHugeStr: true})
		n := 2 + g.uni(10, "n")
		var rows []sparseRow
		for i := 0; i < n; i++ {
			r := sparseRow{}
			// zero values (omitted members) are frequent
			if g.pct("k") < 60 {
				r.K = int64(g.uni(4, "kv"))
			}
			if g.pct("a") < 50 {
				r.A = int64(g.uni(4, "av")) - 1
			}
			if g.pct("s") < 50 {
				r.S = pickU(g, tinyStrs, "sv")
			}
			if g.pct("f") < 40 {
				r.F = pickU(g, tinyFloats, "fv")
			}
			if g.pct("in") < 40 {
				r.InN, r.InS = int64(g.uni(3, "inn")), pickU(g, tinyStrs, "ins")
			}
			if g.pct("p") < 50 {
				r.HasP = true
				if g.pct("pn") < 60 {
					r.PN = int64(g.uni(3, "pnv"))
				}
				if g.pct("ps") < 50 {
					r.PS = pickU(g, tinyStrs, "psv")
				}
			}
			rows = append(rows, r)
		}
		prog := &Program{Property: prop, Aux: map[string]interface{}{"sparse": rows, "cache": g.pct("cache") < 30, "async": g.pct("async") < 15, "compress": g.pct("compress") < 30}}
		guard(rt, prog, func() { caseC02Sparse(rt, prog) })
	})
}

func caseC02Sparse(t TB, prog *Program) {
	st := statsFor(prog.Property)
	var rows []sparseRow
	reJSON(prog.Aux["sparse"], &rows)
	cache, _ := prog.Aux["cache"].(bool)
	async, _ := prog.Aux["async"].(bool)
	compress, _ := prog.Aux["compress"].(bool)
	fail := func(format string, a ...interface{}) {
		msg := fmt.Sprintf(format, a...)
		recordFailure(prog, msg)
		t.Fatalf("%s\nprogram: %s", msg, prog.JSON())
	}
	root := newRoot()
	defer os.RemoveAll(root)
	sod.LowercaseNames = false
	db := sod.Open(root)
	defer func() { db.Close() }()
	schema := sod.DefaultSchema
	schema.Cache, schema.Compress = cache, compress
	if async {
		schema.Asynchrone(3, 1e9*3600)
	}
	if err := db.Create(&Sparse{}, schema); err != nil {
		fail("Create: %v", err)
	}
	model := map[string]sparseRow{}
	var batch []sod.Object
	for i, r := range rows {
		o := &Sparse{K: r.K, A: r.A, S: r.S, F: r.F, In: SparseIn{N: r.InN, S: r.InS}}
		o.X.A, o.X.B, o.Y.A, o.Y.B = r.A, r.K, r.K+10, r.A+10 // (derived: the rows stay the model)
		if r.HasP {
			o.P = &SparseIn{N: r.PN, S: r.PS}
		}
		if i%3 == 0 {
			if err := db.InsertOrUpdate(o); err != nil {
				fail("InsertOrUpdate: %v", err)
			}
			model[o.UUID()] = r
		} else {
			batch = append(batch, o)
		}
	}
	if len(batch) > 0 {
		if n, err := db.InsertOrUpdateMany(batch...); err != nil || n != len(batch) {
			fail("InsertOrUpdateMany: n=%d err=%v", n, err)
		}
		for i, o := range batch {
			_ = i
			// rows of the batch in order
			model[o.UUID()] = rowOf(o.(*Sparse))
		}
	}
	flags := map[string]int{"sparse-objects": 1}
	if !cache && !async {
		// the scans below read the files; with the cache on they also run once on a cold handle
		flags["scan-reads-files"] = 1
	}
	check := func(when string) {
		type probe struct {
			path string
			op   string
			v    interface{}
			pred func(r sparseRow) bool
		}
		var probes []probe
		for _, x := range []int64{-1, 0, 1, 2, 3} {
			x := x
			probes = append(probes,
				probe{"A", "=", x, func(r sparseRow) bool { return r.A == x }},
				probe{"A", "!=", x, func(r sparseRow) bool { return r.A != x }},
				probe{"A", ">", x, func(r sparseRow) bool { return r.A > x }},
				probe{"K", "=", x, func(r sparseRow) bool { return r.K == x }},
				probe{"K", "<=", x, func(r sparseRow) bool { return r.K <= x }},
				probe{"In.N", "=", x, func(r sparseRow) bool { return r.InN == x }},
				probe{"P.N", "=", x, func(r sparseRow) bool { return r.PN == x }}, // through nil: zero value
				probe{"P.N", "!=", x, func(r sparseRow) bool { return r.PN != x }},
				probe{"X.A", "=", x, func(r sparseRow) bool { return r.A == x }},
				probe{"X.B", "=", x, func(r sparseRow) bool { return r.K == x }},
				probe{"Y.A", "=", x + 10, func(r sparseRow) bool { return r.K == x }},
				probe{"Y.B", "=", x + 10, func(r sparseRow) bool { return r.A == x }},
			)
		}
		for _, x := range append([]string{"zz"}, tinyStrs...) {
			x := x
			probes = append(probes,
				probe{"S", "=", x, func(r sparseRow) bool { return r.S == x }},
				probe{"S", "!=", x, func(r sparseRow) bool { return r.S != x }},
				probe{"In.S", "=", x, func(r sparseRow) bool { return r.InS == x }},
				probe{"P.S", "=", x, func(r sparseRow) bool { return r.PS == x }},
				probe{"P.S", ">=", x, func(r sparseRow) bool { return r.PS >= x }},
			)
		}
		for _, x := range tinyFloats {
			x := x
			probes = append(probes, probe{"F", "=", x, func(r sparseRow) bool { return r.F == x }}, probe{"F", "<", x, func(r sparseRow) bool { return r.F < x }})
		}
		for _, pr := range probes {
			want := map[string]bool{}
			for id, r := range model {
				if pr.pred(r) {
					want[id] = true
				}
			}
			s := db.Search(&Sparse{}, pr.path, pr.op, pr.v)
			if s.Err() != nil {
				fail("%s: Search(%s %s %v): %v", when, pr.path, pr.op, pr.v, s.Err())
			}
			objs, err := s.Collect()
			if err != nil {
				fail("%s: Search(%s %s %v).Collect: %v", when, pr.path, pr.op, pr.v, err)
			}
			got := map[string]bool{}
			for _, o := range objs {
				got[o.UUID()] = true
				if r := rowOf(o.(*Sparse)); r != model[o.UUID()] {
					fail("%s: Search(%s %s %v) returned %s as %+v, stored was %+v", when, pr.path, pr.op, pr.v, o.UUID(), r, model[o.UUID()])
				}
			}
			if s.Len() != len(want) || len(got) != len(want) {
				fail("%s: Search(%s %s %v) finds Len=%d / %d objects, %d stored objects match (stored: %s)", when, pr.path, pr.op, pr.v, s.Len(), len(got), len(want), rowsString(model))
			}
			for id := range want {
				if !got[id] {
					fail("%s: Search(%s %s %v) misses %s = %+v (stored: %s)", when, pr.path, pr.op, pr.v, id, model[id], rowsString(model))
				}
			}
		}
		// Get / GetByUUID with receivers that still carry another object's data: members the file
		// omits are zero, not whatever the receiver held
		for id, want := range model {
			recv := &Sparse{K: 99, A: 99, S: "stale", F: 9.5, In: SparseIn{N: 9, S: "stale"}, P: &SparseIn{N: 9, S: "stale"}, L: []string{"stale"}}
			recv.Initialize(id)
			got, err := db.Get(recv)
			if err != nil {
				fail("%s: Get(%s): %v", when, id, err)
			}
			if r := rowOf(got.(*Sparse)); r != want || len(got.(*Sparse).L) != 0 {
				fail("%s: Get with a receiver that carried other data returns %+v (L=%v) for %s, stored was %+v", when, r, got.(*Sparse).L, id, want)
			}
			recv2 := &Sparse{K: 98, A: 98, S: "stale2", P: &SparseIn{N: 8}}
			recv2.Initialize("11111111-2222-4333-8444-555555555555")
			got2, err := db.GetByUUID(recv2, id)
			if err != nil || got2.UUID() != id {
				fail("%s: GetByUUID(%s) with a receiver identified otherwise: uuid %v err=%v", when, id, got2 != nil && got2.UUID() == id, err)
			}
			if r := rowOf(got2.(*Sparse)); r != want {
				fail("%s: GetByUUID with a receiver that carried other data returns %+v for %s, stored was %+v", when, r, id, want)
			}
		}
		all, err := db.All(&Sparse{})
		if err != nil || len(all) != len(model) {
			fail("%s: All returns %d objects (err=%v), %d are stored", when, len(all), err, len(model))
		}
		for _, o := range all {
			if r := rowOf(o.(*Sparse)); r != model[o.UUID()] {
				fail("%s: All returns %s as %+v, stored was %+v", when, o.UUID(), r, model[o.UUID()])
			}
		}
	}
	check("live handle")
	// a search-delete over an unindexed path removes exactly the matches
	del := map[string]bool{}
	for id, r := range model {
		if r.A == 1 {
			del[id] = true
		}
	}
	if err := db.Search(&Sparse{}, "A", "=", int64(1)).Delete(); err != nil {
		fail("Search(A = 1).Delete: %v", err)
	}
	for id := range del {
		delete(model, id)
	}
	check("after Search(A = 1).Delete")
	if err := db.Close(); err != nil {
		fail("Close: %v", err)
	}
	db = sod.Open(root)
	check("cold handle after reopen")
	st.Case(prog.Hash(), len(rows) >= 3, flags, func() interface{} { return prog })
}

func rowOf(o *Sparse) sparseRow {
	r := sparseRow{K: o.K, A: o.A, S: o.S, F: o.F, InN: o.In.N, InS: o.In.S}
	if o.P != nil {
		r.HasP, r.PN, r.PS = true, o.P.N, o.P.S
	}
	return r
}

func rowsString(m map[string]sparseRow) string {
	var out []string
	for id, r := range m {
		out = append(out, fmt.Sprintf("%s:%+v", id[:8], r))
	}
	sort.Strings(out)
	return strings.Join(out, " ")
}

func init() {
	for _, prop := range []string{"C01", "C02"} {
		replayAlts = append(replayAlts, replayAlt{prop: prop, match: hasAux("sparse"), run: func(t *testing.T, prog *Program) {
			guardT(t, prog, func() { caseC02Sparse(t, prog) })
		}})
	}
}
