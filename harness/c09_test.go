package props

import (
	"fmt"
	"os"
	"path/filepath"
	"strings"
	"sync"
	"testing"
	"time"

	"github.com/0xrawsec/sod"
	"github.com/0xrawsec/sod/vshim"
	"pgregory.net/rapid"
)

// ---------------------------------------------------------------- C09: no call can block forever

func workersOf(prog *Program) [][]COp {
	var ws [][]COp
	reJSON(prog.Aux["workers"], &ws)
	return ws
}

func genConc(g *G, prog *Program, kinds []string, maxWorkers, maxOps int) {
	nw := 2 + g.uni(maxWorkers-1, "nworkers")
	var ws [][]COp
	for w := 0; w < nw; w++ {
		var ops []COp
		for i, n := 0, 1+g.uni(maxOps, "nwops"); i < n; i++ {
			ops = append(ops, g.COp(kinds))
		}
		ws = append(ws, ops)
	}
	prog.Aux = map[string]interface{}{"workers": ws, "intensity": 32 + g.uni(200, "intensity"), "warm": g.pct("warm") < 70}
	if x := g.pct("crashprelude"); (prog.Cfg.Async != nil && x < 35) || (prog.Cfg.Async == nil && x < 15) {
		// the workers start on a handle opened on a copy of the directory taken while writes
		// were pending: whatever state a crashed process leaves, no call may block on it
		prog.Aux["crashPrelude"] = true
		prog.Ops = append(prog.Ops, Op{Op: "many", Items: []BatchItem{{Kind: "new", D: g.Doc()}, {Kind: "new", D: g.Doc()}}})
	}
}

// crashPrelude swaps the handle for one opened on a copy of the directory as it is right now
// (the copy lives inside the root, so Teardown removes it; the old handle is closed at once).
func crashPrelude(e *Env, prog *Program) {
	if on, _ := prog.Aux["crashPrelude"].(bool); !on {
		return
	}
	snap := filepath.Join(e.root, ".snap")
	filepath.Walk(e.root, func(p string, info os.FileInfo, err error) error {
		if err != nil {
			return nil
		}
		rel, _ := filepath.Rel(e.root, p)
		if rel == ".snap" || strings.HasPrefix(rel, ".snap"+string(filepath.Separator)) {
			return nil
		}
		if info.IsDir() {
			os.MkdirAll(filepath.Join(snap, rel), 0777)
		} else if b, err := os.ReadFile(p); err == nil {
			os.WriteFile(filepath.Join(snap, rel), b, 0666)
		}
		return nil
	})
	e.db.Close()
	// the crashed process had also begun to rewrite some objects: their temporary files are
	// still there (killed between creating the file and renaming it)
	suffix := e.cfg.Ext
	if e.cfg.Compress {
		suffix += ".gz"
	}
	cdir := strings.Replace(e.collDir(), e.root, snap, 1)
	for i, id := range e.m.live {
		if i%2 == 0 && i < 8 {
			os.WriteFile(filepath.Join(cdir, "."+id+suffix+".tmp"), []byte("{\"half"), 0600)
		}
	}
	e.db = sod.Open(snap)
	e.flag("workers-start-on-a-crash-state")
}

func c09Profile() *Profile {
	return &Profile{
		Property: "C09", MaxOps: 6,
		W:          map[string]int{"insert": 8, "update": 2, "delete": 1, "many": 1},
		AllowCache: true, AllowCompress: true, AllowAsync: true,
		MaxIndexed: 3, MaxUnique: 1, TinyBias: 70, BigBias: 5, MaxLeaves: 2,
	}
}

func TestC09(t *testing.T) {
	if !instrumented() {
		t.Skip("needs the instrumented build")
	}
	st := statsFor("C09")
	st.Rule = "a sequential prefix builds state, then 2-4 workers x 1-5 calls drawn from ALL public entry points (Get, GetByUUID, Exist, Count, All, AssignAll, AssignIndex, Search + And/Or + Len/Collect/One/Delete, InsertOrUpdate, Many, Bulk, Delete, DeleteAll, FlushAll, FlushAllAndCommit, Commit, Control, Schema, Create, Repair) in sync, cached and async configurations (flusher running on a 50x scaled clock). Each program runs twice on the copy whose sync.RWMutex/Mutex are wrapped: (1) single-threaded with the lock monitor: no read re-acquisition of a lock the goroutine already holds in read mode (deadlocks as soon as a writer queues), no acquisition under its own write lock, no cycle in the global acquisition-order graph; a re-entrant read is then CONFIRMED by re-running with a writer queued between the two acquisitions and observing that the call never returns; (2) concurrently with scheduling perturbation at every lock/sleep site under a progress watchdog: a hang is declared only when every unfinished worker and flusher sits in a lock acquisition on two stack samples 1.5 s apart. Settings switches through Create (async off/on, cache toggle), a second collection and Repair are worker ops; after the concurrent phase the final-consistency invariant of C08 is checked too. Evidence reports which entry points were executed. 35 % of the async and 15 % of the sync programs start their workers on a handle opened on a copy of the directory taken while writes were pending, with leftover temporary files of some stored objects (whatever a crashed process leaves, no call may block on it); InsertOrUpdateBulk is fed through an unbuffered channel by a producer that calls Count / GetByUUID on the same handle between two sends. TestC09StorageGone: with 1-100 async writes pending (threshold and timeout out of reach, so only API calls flush) every file-system mutation fails from a generated point on; a generated series of calls (FlushAll, FlushAllAndCommit, Commit, writes, deletes, Repair, Create, reads, Control) and finally Close run under a 10 s watchdog each: they may fail, they must return. Non-trivial: >= 1 enumerating call (All, AssignAll, search on an unindexed path, DeleteAll, Count) together with >= 1 writer, or a running flusher. Distinct by program hash."
	st.Assumptions = append(baseAssumptions(), "user Transform/Validate hooks return", "interleavings are sampled; the lock monitor is order-insensitive but only sees call paths that some generated program executes")
	prof := c09Profile()
	rapid.Check(t, func(rt *rapid.T) {
		g := NewG(rt, prof)
		prog := g.Program()
		genConc(g, prog, allKinds, 4, 5)
		guard(rt, prog, func() { caseC09(rt, prog) })
	})
}

func caseC09(t TB, prog *Program) {
	st := statsFor("C09")
	ws := workersOf(prog)
	intensity := 100
	if v, ok := prog.Aux["intensity"].(float64); ok {
		intensity = int(v)
	}
	flags := map[string]int{}
	for _, w := range ws {
		for _, op := range w {
			flags["entry-"+op.Kind] = 1
		}
	}

	runSequential := func(inject bool) (reports []vshim.LockReport, returned bool) {
		vshim.SetClock(vshim.ClockScaled, 50)
		vshim.SetIntensity(0)
		e := NewEnv(t, prog, RunOpts{NoObs: true})
		e.db.Create(&Other{}, sod.DefaultSchema)
		done := make(chan struct{})
		go func() {
			defer close(done)
			defer func() {
				if r := recover(); r != nil && !isRapidPanic(r) {
					// a panic is C19's business; here only blocking matters
				}
			}()
			e.Run()
			crashPrelude(e, prog)
			known := append([]string(nil), e.m.live...)
			vshim.Monitor(true, inject)
			var evs []Event
			for w, ops := range ws {
				runWorker(e.db, e, w, ops, known, e.m.objs, time.Now(), &evs)
			}
			time.Sleep(10 * time.Millisecond) // let the flusher take its locks under the monitor
			e.db.Close()
			e.db = nil
		}()
		select {
		case <-done:
			returned = true
		case <-time.After(8 * time.Second):
		}
		reports = vshim.LockReports()
		vshim.Monitor(false, false)
		if returned {
			e.Teardown()
		}
		return
	}

	// (1) lock discipline, single-threaded
	reports, returned := runSequential(false)
	if !returned {
		msg := "single-threaded execution of the program did not return within 8 s"
		recordFailure(prog, msg)
		t.Fatalf("%s\nprogram: %s", msg, prog.JSON())
	}
	if len(reports) > 0 {
		kinds := map[string]string{}
		for _, r := range reports {
			if _, ok := kinds[r.Kind]; !ok {
				kinds[r.Kind] = r.Where
			}
		}
		var lines []string
		for k, w := range kinds {
			lines = append(lines, k+" at "+w)
		}
		confirm := ""
		if _, ok := kinds["reentrant-read"]; ok {
			if _, ret := runSequential(true); !ret {
				confirm = "\nCONFIRMED: with a writer queued between the two read acquisitions the call never returns"
			} else {
				confirm = "\n(not confirmed by writer injection within 8 s)"
			}
		}
		msg := "lock discipline violated: " + strings.Join(lines, "; ") + confirm
		recordFailure(prog, msg)
		t.Fatalf("%s\nprogram: %s", msg, prog.JSON())
	}

	// (2) concurrent execution under the watchdog
	vshim.SetClock(vshim.ClockScaled, 50)
	vshim.SetIntensity(intensity)
	defer func() {
		vshim.SetIntensity(0)
		vshim.SetClock(vshim.ClockReal, 1)
	}()
	e := NewEnv(t, prog, RunOpts{NoObs: true})
	e.db.Create(&Other{}, sod.DefaultSchema)
	e.Run()
	crashed, _ := prog.Aux["crashPrelude"].(bool)
	crashPrelude(e, prog)
	known := append([]string(nil), e.m.live...)
	var wg sync.WaitGroup
	t0 := time.Now()
	evs := make([][]Event, len(ws))
	for w := range ws {
		w := w
		wg.Add(1)
		go c09Worker(&wg, func() {
			defer func() { recover() }()
			runWorker(e.db, e, w, ws[w], known, e.m.objs, t0, &evs[w])
		})
	}
	closed := make(chan struct{})
	go func() {
		wg.Wait()
		close(closed)
	}()
	hang := func(what string) {
		stuck1, _ := stuckInLocks()
		time.Sleep(1500 * time.Millisecond)
		stuck2, summary := stuckInLocks()
		if stuck1 && stuck2 {
			msg := fmt.Sprintf("%s: no progress, every unfinished worker and flusher waits for a lock on two samples 1.5 s apart:\n%s", what, summary)
			recordFailure(prog, msg)
			t.Fatalf("%s\nprogram: %s", msg, prog.JSON())
		}
	}
	select {
	case <-closed:
	case <-time.After(15 * time.Second):
		hang("concurrent workers")
		select {
		case <-closed:
		case <-time.After(90 * time.Second):
			st.Add("inconclusive_slow_cases", 1)
			return
		}
	}
	if !crashed {
		finalConsistency(e, e.db)
	} else {
		flags["workers-start-on-a-crash-state"] = 1
	}
	// Close must return, too
	cdone := make(chan struct{})
	go func() {
		var wg2 sync.WaitGroup
		wg2.Add(1)
		c09Worker(&wg2, func() { e.db.Close() })
		close(cdone)
	}()
	select {
	case <-cdone:
	case <-time.After(15 * time.Second):
		hang("Close after the workers finished")
		<-cdone
	}
	e.db = nil
	e.Teardown()
	enumerating, writer := false, false
	for k := range flags {
		switch k {
		case "entry-all", "entry-assignAll", "entry-deleteAll", "entry-count", "entry-searchCollect", "entry-searchChain", "entry-searchDelete", "entry-iterCount":
			enumerating = true
		case "entry-insert", "entry-update", "entry-delete", "entry-many", "entry-bulk", "entry-flushAllCommit", "entry-commit", "entry-createAgain":
			writer = true
		}
	}
	if e.cfg.Async != nil {
		flags["cfg-async-flusher-running"] = 1
	}
	if e.cfg.Cache {
		flags["cfg-cache"] = 1
	}
	st.Case(prog.Hash(), (enumerating && writer) || e.cfg.Async != nil, flags, func() interface{} { return prog })
}

func init() {
	replayers["C09"] = func(t *testing.T, prog *Program) { guardT(t, prog, func() { caseC09(t, prog) }) }
}

// TestC09StorageGone: the storage stops working altogether (every file-system mutation fails
// from some point on) while an async collection has tens of writes pending. Calls fail - that is
// their right - but every one of them returns, and so does Close.
func TestC09StorageGone(t *testing.T) {
	if !instrumented() {
		t.Skip("needs the instrumented build")
	}
	rapid.Check(t, func(rt *rapid.T) {
		g := NewG(rt, &Profile{Property: "C09", TinyBias: 60})
		// (threshold and timeout out of reach: the background flusher must not meet the dead storage,
		// its reaction to a failed flush is outside this property)
		cfg := Config{Ext: ".json", Cache: g.pct("cache") < 50, Compress: g.pct("compress") < 20,
			Async: &AsyncCfg{Threshold: 1000000, TimeoutMs: 3600000 * 24}, Cons: map[string]Cons{"I64": {Index: true}}}
		if g.pct("sync") < 25 {
			cfg.Async = nil
		}
		calls := []string{}
		for i, n := 0, 2+g.uni(5, "ncalls"); i < n; i++ {
			calls = append(calls, pickU(g, []string{"flushAll", "flushAllCommit", "commit", "insert", "many", "delete", "deleteAll", "repair", "createAgain", "count", "all", "control", "searchDelete"}, "call"))
		}
		prog := &Program{Property: "C09", Cfg: cfg, Aux: map[string]interface{}{
			"storageGone": calls, "pending": pickU(g, []int{1, 5, 16, 17, 18, 40, 100}, "pending"), "after": g.uni(4, "after")}}
		guard(rt, prog, func() { caseC09StorageGone(rt, prog) })
	})
}

func caseC09StorageGone(t TB, prog *Program) {
	st := statsFor("C09")
	var calls []string
	reJSON(prog.Aux["storageGone"], &calls)
	pending, after := auxInt(prog.Aux, "pending"), auxInt(prog.Aux, "after")
	vshim.SetClock(vshim.ClockReal, 1)
	e := NewEnv(t, prog, RunOpts{NoObs: true, PreOpen: func(root string) { vshim.Register(root, vshim.ModePass) }})
	defer func() { vshim.Disarm(e.root); vshim.Unregister(e.root); e.Teardown() }()
	db := e.db
	var objs []sod.Object
	for i := 0; i < pending; i++ {
		objs = append(objs, &Doc{I64: int64(i), S: "pending"})
	}
	if _, err := db.InsertOrUpdateMany(objs...); err != nil {
		e.failf("prefill: %v", err)
	}
	// from the after-th mutation on nothing can be written, created, renamed or removed
	vshim.ArmFrom(e.root, after)
	flags := map[string]int{}
	run := func(name string, f func()) {
		done := make(chan struct{})
		go func() {
			defer close(done)
			defer func() { recover() }() // (a panic is C19's business)
			f()
		}()
		select {
		case <-done:
		case <-time.After(10 * time.Second):
			stuck, summary := stuckInLocks()
			msg := fmt.Sprintf("the storage fails on every mutation (from the %d-th on) with %d async writes pending; %s did not return within 10 s (calls so far: %v; all goroutines in lock or channel waits: %v)\n%s", after, pending, name, calls, stuck, summary)
			recordFailure(prog, msg)
			t.Fatalf("%s\nprogram: %s", msg, prog.JSON())
		}
		flags["storage-gone-"+name] = 1
	}
	for _, c := range calls {
		switch c {
		case "flushAll":
			run(c, func() { db.FlushAll(&Doc{}) })
		case "flushAllCommit":
			run(c, func() { db.FlushAllAndCommit(&Doc{}) })
		case "commit":
			run(c, func() { db.Commit(&Doc{}) })
		case "insert":
			run(c, func() { db.InsertOrUpdate(&Doc{I64: 7777, S: "late"}) })
		case "many":
			run(c, func() { db.InsertOrUpdateMany(&Doc{I64: 7778}, &Doc{I64: 7779}) })
		case "delete":
			run(c, func() { db.Delete(objs[0]) })
		case "deleteAll":
			run(c, func() { db.DeleteAll(&Doc{}) })
		case "repair":
			run(c, func() { db.Repair(&Doc{}) })
		case "createAgain":
			run(c, func() { db.Create(&Doc{}, e.cfg.Schema()) })
		case "count":
			run(c, func() { db.Count(&Doc{}) })
		case "all":
			run(c, func() { db.All(&Doc{}) })
		case "control":
			run(c, func() { db.Control() })
		case "searchDelete":
			run(c, func() { db.Search(&Doc{}, "I64", "<", int64(3)).Delete() })
		}
	}
	run("Close", func() { db.Close() })
	e.db = nil
	if e.cfg.Async != nil && pending >= 17 {
		flags["many-pending-writes-fail-in-one-flush"] = 1
	}
	st.Case(prog.Hash(), pending >= 5, flags, func() interface{} { return prog })
}

func init() {
	replayAlts = append(replayAlts, replayAlt{prop: "C09", match: hasAux("storageGone"), run: func(t *testing.T, prog *Program) {
		guardT(t, prog, func() { caseC09StorageGone(t, prog) })
	}})
}
