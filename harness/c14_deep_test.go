package props

import (
	"fmt"
	"os"
	"reflect"
	"testing"

	"github.com/0xrawsec/sod"
	"pgregory.net/rapid"
)

// Deep holds containers nested directly inside containers (shapes Doc does not
// have; Doc cannot grow any more because the golden corpus pins its descriptors).
type Deep struct {
	sod.Item
	K   int `sod:"index"`
	SS  [][]int
	SM  []map[string]int
	MM  map[string]map[string]int
	MSl map[string][]string
	PS  *[]string
	PM  *map[string]int
	SA  [][2]int
	SI  []interface{}
	MI  map[string]interface{}
	PP  **Inner
	SPS []*[]int
	SSS [][][]string
	MP  map[string]*Inner
	MPS map[string]*[]int
	MIf map[string]interface{}
	In  struct{ L [][]string }
	// arrays are values, what their elements reference is not
	AP  [2]*int
	ASl [2][]string
	AM  [1]map[string]int
	AIn [2]struct{ P *Inner }
	SAP [][2]*int
}

func genDeep(g *G) *Deep {
	d := &Deep{K: g.uni(5, "k")}
	ints := func() []int {
		n := g.uni(3, "nints")
		out := make([]int, n)
		for i := range out {
			out[i] = g.uni(10, "int")
		}
		return out
	}
	strs := func() []string {
		n := g.uni(3, "nstrs")
		out := make([]string, 0, n)
		for i := 0; i < n; i++ {
			out = append(out, pickU(g, tinyStrs, "str"))
		}
		return out
	}
	smap := func() map[string]int {
		m := map[string]int{}
		for i, n := 0, g.uni(3, "nmap"); i < n; i++ {
			m[pickU(g, []string{"a", "b", "c"}, "key")] = g.uni(10, "mv")
		}
		return m
	}
	if g.pct("ss") < 70 {
		for i, n := 0, 1+g.uni(3, "nss"); i < n; i++ {
			d.SS = append(d.SS, ints())
		}
	}
	if g.pct("sm") < 70 {
		for i, n := 0, 1+g.uni(2, "nsm"); i < n; i++ {
			d.SM = append(d.SM, smap())
		}
	}
	if g.pct("mm") < 70 {
		d.MM = map[string]map[string]int{"x": smap(), "y": nil}
	}
	if g.pct("msl") < 70 {
		d.MSl = map[string][]string{"p": strs(), "q": {}}
	}
	if g.pct("ps") < 60 {
		s := strs()
		d.PS = &s
	}
	if g.pct("pm") < 60 {
		m := smap()
		d.PM = &m
	}
	if g.pct("sa") < 60 {
		d.SA = [][2]int{{1, 2}, {g.uni(9, "a"), 4}}
	}
	if g.pct("si") < 70 {
		d.SI = []interface{}{g.anyVal(0), g.anyVal(0), map[string]interface{}{"k": []interface{}{1.5, "z"}}}
	}
	if g.pct("mi") < 70 {
		d.MI = map[string]interface{}{"l": []interface{}{g.anyVal(1)}, "m": map[string]interface{}{"n": g.anyVal(1)}}
	}
	if g.pct("pp") < 60 {
		in := g.inner()
		d.PP = &in
	}
	if g.pct("sps") < 60 {
		a := ints()
		d.SPS = []*[]int{&a, nil}
	}
	if g.pct("sss") < 60 {
		d.SSS = [][][]string{{strs(), strs()}, {}}
	}
	if g.pct("mp") < 70 {
		d.MP = map[string]*Inner{"a": g.inner(), "b": g.inner(), "c": nil, "d": g.inner()}
	}
	if g.pct("mps") < 50 {
		x, y := ints(), ints()
		d.MPS = map[string]*[]int{"x": &x, "n": nil, "y": &y}
	}
	if g.pct("mif") < 60 {
		// zero values held by interfaces are values, not absence
		d.MIf = map[string]interface{}{"zero": 0.0, "empty": "", "false": false, "nil": nil, "s": []interface{}{0.0, "", false}}
	}
	if g.pct("inl") < 60 {
		d.In.L = [][]string{strs(), strs()}
	}
	if g.pct("ap") < 60 {
		v := g.uni(9, "apv")
		d.AP = [2]*int{&v, nil}
	}
	if g.pct("asl") < 60 {
		d.ASl = [2][]string{strs(), nil}
	}
	if g.pct("am") < 60 {
		d.AM = [1]map[string]int{smap()}
	}
	if g.pct("ain") < 60 {
		d.AIn[1].P = g.inner()
	}
	if g.pct("sap") < 50 {
		v := g.uni(9, "sapv")
		d.SAP = [][2]*int{{nil, &v}}
	}
	return d
}

// TestC14Deep: isolation for containers nested inside containers.
func TestC14Deep(t *testing.T) {
	st := statsFor("C14")
	rapid.Check(t, func(rt *rapid.T) {
		g := NewG(rt, &Profile{Property: "C14"})
		cache := g.pct("cache") < 50
		async := g.pct("async") < 35
		n := 1 + g.uni(3, "n")
		var docs []*Deep
		for i := 0; i < n; i++ {
			docs = append(docs, genDeep(g))
		}
		prog := &Program{Property: "C14", Cfg: Config{Cache: cache, Ext: ".json"}, Aux: map[string]interface{}{"deep": docs, "cache": cache, "async": async}}
		guard(rt, prog, func() { caseC14Deep(rt, prog) })
	})
	_ = st
}

func caseC14Deep(t TB, prog *Program) {
	st := statsFor("C14")
	var docs []*Deep
	reJSON(prog.Aux["deep"], &docs)
	cache, _ := prog.Aux["cache"].(bool)
	async, _ := prog.Aux["async"].(bool)
	fail := func(format string, a ...interface{}) {
		msg := fmt.Sprintf(format, a...)
		recordFailure(prog, msg)
		t.Fatalf("%s\nprogram: %s", msg, prog.JSON())
	}
	root := newRoot()
	defer os.RemoveAll(root)
	sod.LowercaseNames = false
	s := sod.DefaultSchema
	s.Cache = cache
	if async {
		s.Asynchrone(100, 1e9*3600)
	}
	db := sod.Open(root)
	defer db.Close()
	if err := db.Create(&Deep{}, s); err != nil {
		fail("Create: %v", err)
	}
	want := map[string]string{}
	mutated := 0
	for _, d := range docs {
		c := canon(d)
		if err := db.InsertOrUpdate(d); err != nil {
			fail("InsertOrUpdate: %v", err)
		}
		want[d.UUID()] = c
		// the caller keeps using (and changing) its object
		mutated += scramble(reflect.ValueOf(d), 0)
	}
	read := func(id string) sod.Object {
		o, err := db.GetByUUID(&Deep{}, id)
		if err != nil {
			fail("GetByUUID: %v", err)
		}
		return o
	}
	for id, c := range want {
		o1 := read(id)
		if canon(o1) != c {
			fail("after mutating the caller's object a read returns %s, stored was %s (cache=%v async=%v)", canon(o1), c, cache, async)
		}
		o2 := read(id)
		if sh := shared(o1, o2); sh != "" {
			fail("two reads share memory at %s (cache=%v async=%v)", sh, cache, async)
		}
		mutated += scramble(reflect.ValueOf(o1), 0)
		o3 := read(id)
		if canon(o3) != c {
			fail("after mutating a returned object a fresh read returns %s, stored was %s (cache=%v async=%v)", canon(o3), c, cache, async)
		}
	}
	all, err := db.All(&Deep{})
	if err != nil {
		fail("All: %v", err)
	}
	for _, o := range all {
		scramble(reflect.ValueOf(o), 0)
	}
	res, err := db.Search(&Deep{}, "K", ">=", 0).Collect()
	if err != nil {
		fail("Search: %v", err)
	}
	for _, o := range res {
		if canon(o) != want[o.UUID()] {
			fail("after mutating objects returned by All, Search returns %s, stored was %s", canon(o), want[o.UUID()])
		}
	}
	// cached read == round trip through the file
	if async {
		if err := db.FlushAllAndCommit(&Deep{}); err != nil {
			fail("FlushAllAndCommit: %v", err)
		}
	}
	db2 := sod.Open(root)
	defer db2.Close()
	for id, c := range want {
		o, err := db2.GetByUUID(&Deep{}, id)
		if err != nil {
			fail("second handle: %v", err)
		}
		if canon(o) != c {
			fail("the file holds %s, stored was %s (the pending/cached copy aliased caller memory?) cache=%v async=%v", canon(o), c, cache, async)
		}
	}
	flags := map[string]int{"deep-nested-containers": 1}
	if cache {
		flags["cfg-cache"] = 1
	}
	if async {
		flags["cfg-async"] = 1
	}
	st.Case(prog.Hash(), mutated > 0, flags, func() interface{} { return prog })
}

func init() {
	replayAlts = append(replayAlts, replayAlt{"C14", hasAux("deep"), func(t *testing.T, prog *Program) {
		guardT(t, prog, func() { caseC14Deep(t, prog) })
	}})
}
