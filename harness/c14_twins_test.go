package props

import (
	"fmt"
	"os"
	"reflect"
	"testing"

	"github.com/0xrawsec/sod"
	"pgregory.net/rapid"
)

// ---------------------------------------------------------------- C14: distinct types with one name
//
// reflect.Type.String() is not an identity: two packages (model/v1, model/v2), or two
// functions, can declare different types under one name. One process may store both (in
// different databases). Whatever the library remembers per type must not leak from one to the
// other: here a reference-free struct and structs full of references share the names
// props.Twin0..2, are stored in a generated order, and each goes through the store / mutate /
// read protocol of C14.

type twinDef struct {
	name string // which of the shared type names
	kind string
	make func(i int) sod.Object
}

func twinDefs() []twinDef {
	var out []twinDef
	// name 0
	out = append(out,
		twinDef{"Twin0", "plain", func(i int) sod.Object {
			type Twin0 struct {
				sod.Item
				A   int
				S   string
				Sub SubA
			}
			return &Twin0{A: i, S: "s", Sub: SubA{X: i, Y: "y"}}
		}},
		twinDef{"Twin0", "refs", func(i int) sod.Object {
			type Twin0 struct {
				sod.Item
				A int
				P *SubA
				L []string
				M map[string]int
			}
			return &Twin0{A: i, P: &SubA{X: i, Y: "p"}, L: []string{"l0", "l1"}, M: map[string]int{"k": i}}
		}})
	// name 1: the reference sits one struct level down
	out = append(out,
		twinDef{"Twin1", "plain", func(i int) sod.Object {
			type Twin1 struct {
				sod.Item
				In struct {
					X, Y int
				}
				Arr [2]int
			}
			return &Twin1{Arr: [2]int{i, i}}
		}},
		twinDef{"Twin1", "refs", func(i int) sod.Object {
			type Twin1 struct {
				sod.Item
				In struct {
					X int
					Q *SubA
				}
				Arr [2]*int
			}
			o := &Twin1{}
			o.In.X, o.In.Q = i, &SubA{X: i, Y: "q"}
			v := i
			o.Arr[0] = &v
			return o
		}})
	// name 2: interface slot
	out = append(out,
		twinDef{"Twin2", "plain", func(i int) sod.Object {
			type Twin2 struct {
				sod.Item
				F float64
				B bool
			}
			return &Twin2{F: float64(i)}
		}},
		twinDef{"Twin2", "refs", func(i int) sod.Object {
			type Twin2 struct {
				sod.Item
				F   float64
				Any interface{}
				SS  [][]int
			}
			return &Twin2{F: float64(i), Any: map[string]interface{}{"a": []interface{}{"x", float64(i)}}, SS: [][]int{{i, 1}, {2}}}
		}})
	return out
}

func TestC14Twins(t *testing.T) {
	n := len(twinDefs())
	rapid.Check(t, func(rt *rapid.T) {
		g := NewG(rt, &Profile{Property: "C14"})
		// a step = one shared name, both of its variants in a generated order (so that every
		// step - and every shrunk case - carries its own "first use of the name")
		var order []int
		for i, k := 0, 1+g.uni(3, "ntwins"); i < k; i++ {
			name := g.uni(n/2, "twin")
			if g.pct("refsfirst") < 35 {
				order = append(order, 2*name+1, 2*name)
			} else {
				order = append(order, 2*name, 2*name+1)
			}
		}
		prog := &Program{Property: "C14", Aux: map[string]interface{}{"twins": order, "cache": g.pct("cache") < 70, "async": g.pct("async") < 25}}
		guard(rt, prog, func() { caseC14Twins(rt, prog) })
	})
}

func caseC14Twins(t TB, prog *Program) {
	st := statsFor("C14")
	var order []int
	reJSON(prog.Aux["twins"], &order)
	cache, _ := prog.Aux["cache"].(bool)
	async, _ := prog.Aux["async"].(bool)
	defs := twinDefs()
	fail := func(format string, a ...interface{}) {
		msg := fmt.Sprintf(format, a...)
		recordFailure(prog, msg)
		t.Fatalf("%s\nprogram: %s", msg, prog.JSON())
	}
	sod.LowercaseNames = false
	flags := map[string]int{}
	for step, di := range order {
		d := defs[di%len(defs)]
		what := fmt.Sprintf("step %d, type %s (%s variant)", step, d.name, d.kind)
		// same-named types cannot share a directory: one database each
		root := newRoot()
		s := sod.DefaultSchema
		s.Cache = cache
		if async {
			s.Asynchrone(100, 1e9*3600)
		}
		db := sod.Open(root)
		func() {
			defer os.RemoveAll(root)
			defer db.Close()
			o := d.make(step + 1)
			if err := db.Create(o, s); err != nil {
				fail("%s: Create: %v", what, err)
			}
			want := canon(o)
			if err := db.InsertOrUpdate(o); err != nil {
				fail("%s: InsertOrUpdate: %v", what, err)
			}
			if scramble(reflect.ValueOf(o), 0) > 0 {
				flags["isolation-mutated-caller-object"] = 1
			}
			get := func() sod.Object {
				probe := d.make(0)
				probe.Initialize(o.UUID())
				got, err := db.Get(probe)
				if err != nil {
					fail("%s: Get: %v", what, err)
				}
				return got
			}
			g1 := get()
			if canon(g1) != want {
				fail("%s: the caller changed its object after storing it; Get returns %s, stored was %s", what, canon(g1), want)
			}
			g2 := get()
			if sh := shared(g1, g2); sh != "" {
				fail("%s: two reads share memory at %s", what, sh)
			}
			scramble(reflect.ValueOf(g1), 0)
			if g3 := get(); canon(g3) != want {
				fail("%s: after mutating a returned object a fresh read gives %s, stored was %s", what, canon(g3), want)
			}
			all, err := db.All(d.make(0))
			if err != nil || len(all) != 1 || canon(all[0]) != want {
				fail("%s: All returns %d objects (err=%v), want the stored one", what, len(all), err)
			}
		}()
		flags["twin-"+d.kind] = 1
	}
	st.Case(prog.Hash(), flags["twin-plain"] > 0 && flags["twin-refs"] > 0, flags, func() interface{} { return prog })
}

func init() {
	replayAlts = append(replayAlts, replayAlt{prop: "C14", match: hasAux("twins"), run: func(t *testing.T, prog *Program) {
		guardT(t, prog, func() { caseC14Twins(t, prog) })
	}})
}
