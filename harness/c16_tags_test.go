package props

import (
	"fmt"
	"os"
	"sort"
	"strings"
	"testing"

	"github.com/0xrawsec/sod"
	"pgregory.net/rapid"
)

// Tagged exercises the struct-tag path (DefaultSchema + `sod:"..."` tags) that the
// custom-schema based checks bypass: unique implies index, several constraints
// in one tag, constraints on nested and embedded fields.
type TagInner struct {
	Code string `sod:"upper,index"`
}

type TagEmb struct {
	Alias string `sod:"lower,unique"`
}

type tagIns struct {
	Name, Alias, Title, Code, PCode string
	HasPt                           bool
	Rank                            int
}

type Tagged struct {
	sod.Item
	TagEmb
	Name  string `sod:"unique,lower"`
	Title string `sod:"upper"`
	Rank  int    `sod:"index"`
	In    TagInner
	Pt    *TagInner
	Plain string
}

func TestC16Tags(t *testing.T) {
	rapid.Check(t, func(rt *rapid.T) {
		g := NewG(rt, &Profile{Property: "C16", TinyBias: 40, BigBias: 40})
		n := 1 + g.uni(8, "n")
		var docs []tagIns
		for i := 0; i < n; i++ {
			docs = append(docs, tagIns{Name: g.Str(), Alias: g.Str() + fmt.Sprint(i), Title: g.Str(), Code: g.Str(), PCode: g.Str(), HasPt: g.pct("pt") < 50, Rank: g.uni(4, "rank")})
		}
		probes := []string{g.Str(), g.Str(), g.Str()}
		cache := g.pct("cache") < 50
		prog := &Program{Property: "C16", Cfg: Config{Ext: ".json", Cache: cache}, Aux: map[string]interface{}{"tags": docs, "probes": probes}}
		guard(rt, prog, func() { caseC16Tags(rt, prog) })
	})
}

func caseC16Tags(t TB, prog *Program) {
	st := statsFor("C16")
	var docs []tagIns
	var probes []string
	reJSON(prog.Aux["tags"], &docs)
	reJSON(prog.Aux["probes"], &probes)
	cache := prog.Cfg.Cache
	fail := func(format string, a ...interface{}) {
		msg := fmt.Sprintf(format, a...)
		recordFailure(prog, msg)
		t.Fatalf("%s\nprogram: %s", msg, prog.JSON())
	}
	root := newRoot()
	defer os.RemoveAll(root)
	sod.LowercaseNames = false
	s := sod.DefaultSchema
	s.Cache = cache
	db := sod.Open(root)
	defer db.Close()
	if err := db.Create(&Tagged{}, s); err != nil {
		fail("Create: %v", err)
	}
	type row struct{ name, alias, title, code, pcode string }
	model := map[string]row{}
	changed := 0
	for _, d := range docs {
		o := &Tagged{Name: d.Name, Title: d.Title, Rank: d.Rank, Plain: d.Name}
		o.Alias = d.Alias
		o.In.Code = d.Code
		if d.HasPt {
			o.Pt = &TagInner{Code: d.PCode}
		}
		want := row{strings.ToLower(d.Name), strings.ToLower(d.Alias), strings.ToUpper(d.Title), strings.ToUpper(d.Code), strings.ToUpper(d.PCode)}
		if !d.HasPt {
			want.pcode = ""
		}
		conflict := false
		for _, r := range model {
			if r.name == want.name || r.alias == want.alias {
				conflict = true
			}
		}
		err := db.InsertOrUpdate(o)
		if conflict != sod.IsUnique(err) || (!conflict && err != nil) {
			fail("insert Name=%q Alias=%q: err=%v, model says conflict=%v", d.Name, d.Alias, err, conflict)
		}
		if conflict {
			continue
		}
		if want.name != d.Name || want.title != d.Title || want.code != d.Code {
			changed++
		}
		model[o.UUID()] = want
		got, err := db.GetByUUID(&Tagged{}, o.UUID())
		if err != nil {
			fail("GetByUUID: %v", err)
		}
		tg := got.(*Tagged)
		pc := ""
		if tg.Pt != nil {
			pc = tg.Pt.Code
		}
		if (row{tg.Name, tg.Alias, tg.Title, tg.In.Code, pc}) != want || tg.Plain != d.Name {
			fail("stored %+v / Plain=%q, want canonical %+v / Plain=%q", row{tg.Name, tg.Alias, tg.Title, tg.In.Code, pc}, tg.Plain, want, d.Name)
		}
	}
	// case-insensitive searches on tagged paths, indexed (Name, Alias, In.Code, Pt.Code) or not (Title)
	pr := append([]string{}, probes...)
	for _, r := range model {
		pr = append(pr, swapCase(r.name), swapCase(r.title), swapCase(r.code), swapCase(r.alias))
	}
	for _, p := range pr {
		for path, get := range map[string]func(r row) (string, string){
			"Name":         func(r row) (string, string) { return r.name, strings.ToLower(p) },
			"TagEmb.Alias": func(r row) (string, string) { return r.alias, strings.ToLower(p) },
			"Title":        func(r row) (string, string) { return r.title, strings.ToUpper(p) },
			"In.Code":      func(r row) (string, string) { return r.code, strings.ToUpper(p) },
			"Pt.Code":      func(r row) (string, string) { return r.pcode, strings.ToUpper(p) },
		} {
			var want []string
			for id, r := range model {
				if v, c := get(r); v == c {
					want = append(want, id)
				}
			}
			objs, err := db.Search(&Tagged{}, path, "=", p).Collect()
			if err != nil {
				fail("Search(%s = %q): %v", path, p, err)
			}
			var got []string
			for _, o := range objs {
				got = append(got, o.UUID())
			}
			sort.Strings(got)
			sort.Strings(want)
			if strings.Join(got, ",") != strings.Join(want, ",") {
				fail("Search(%s = %q) returned %d objects, canonical comparison says %d", path, p, len(got), len(want))
			}
		}
	}
	// the unique tag implies an index; the plain field has none
	var names []string
	if err := db.AssignIndex(&Tagged{}, "Name", &names); err != nil {
		fail("AssignIndex(Name) on a field tagged unique: %v", err)
	}
	if len(names) != len(model) {
		fail("AssignIndex(Name): %d values, want %d", len(names), len(model))
	}
	var plain []string
	if err := db.AssignIndex(&Tagged{}, "Plain", &plain); err == nil {
		fail("AssignIndex(Plain) succeeded although the field carries no index tag")
	}
	st.Case(prog.Hash(), changed > 0, map[string]int{"tag-driven-schema": 1}, func() interface{} { return prog })
}

func init() {
	replayAlts = append(replayAlts, replayAlt{"C16", hasAux("tags"), func(t *testing.T, prog *Program) {
		guardT(t, prog, func() { caseC16Tags(t, prog) })
	}})
}
