package props

import (
	"flag"
	"fmt"
	"os"
	"sort"
	"strconv"
	"testing"

	"github.com/0xrawsec/sod"
	"pgregory.net/rapid"
)

// ---------------------------------------------------------------- C03 on big collections
//
// The history-based checks keep collections small so that every read path can be compared
// after every step. Anything in the index that depends on size (growth and shrinking of the
// backing arrays, bisection over hundreds of keys) needs more than a thousand objects: this
// property builds such a collection, deletes most of it in a generated order and by generated
// means, and then judges uniqueness (both directions), release of values, the sorted index and
// lookups against a plain map - before and after a reopen.

type Mass struct {
	sod.Item
	K int64   `sod:"unique"`
	S string  `sod:"index"`
	F float64 `sod:"index"`
}

type massParams struct {
	N        int    `json:"n"`
	Stride1  int    `json:"stride1"` // insertion order of the keys
	Stride2  int    `json:"stride2"` // deletion order
	Keep     int    `json:"keep"`
	Cache    bool   `json:"cache"`
	Compress bool   `json:"compress"`
	Mode     string `json:"mode"` // single | range | mixed
	Chunk    int    `json:"chunk"`
}

func gcd(a, b int) int {
	for b != 0 {
		a, b = b, a%b
	}
	return a
}

func coprimeFrom(x, n int) int {
	if x < 1 {
		x = 1
	}
	for gcd(x, n) != 1 {
		x++
	}
	return x
}

func TestC03Mass(t *testing.T) {
	// a case stores 1000-1700 objects: a tiny fraction of the usual case count
	if f := flag.Lookup("rapid.checks"); f != nil {
		old := f.Value.String()
		if n, err := strconv.Atoi(old); err == nil {
			flag.Set("rapid.checks", strconv.Itoa(2+n/pick(400, 250)))
			defer flag.Set("rapid.checks", old)
		}
	}
	rapid.Check(t, func(rt *rapid.T) {
		g := NewG(rt, &Profile{Property: "C03"})
		n := 1030 + g.uni(700, "n")
		p := massParams{N: n,
			Stride1:  coprimeFrom(pickU(g, []int{1, n - 1, 7, 389, 1 + g.uni(n, "s1")}, "stride1"), n),
			Stride2:  coprimeFrom(pickU(g, []int{1, n - 1, 11, 577, 1 + g.uni(n, "s2")}, "stride2"), n),
			Keep:     pickU(g, []int{2 + g.uni(n/4, "keep"), 2 + g.uni(n/4, "keep2"), 511, 512, 255, 256, 127, 63}, "keepkind"),
			Cache:    g.pct("cache") < 60,
			Compress: g.pct("compress") < 15,
			Mode:     pickU(g, []string{"single", "range", "mixed", "mixed"}, "mode"),
			Chunk:    50 + g.uni(400, "chunk"),
		}
		prog := &Program{Property: "C03", Aux: map[string]interface{}{"mass": p}}
		guard(rt, prog, func() { caseC03Mass(rt, prog) })
	})
}

func caseC03Mass(t TB, prog *Program) {
	st := statsFor("C03")
	var p massParams
	reJSON(prog.Aux["mass"], &p)
	fail := func(format string, a ...interface{}) {
		msg := fmt.Sprintf(format, a...)
		recordFailure(prog, msg)
		t.Fatalf("%s\nprogram: %s", msg, prog.JSON())
	}
	root := newRoot()
	defer os.RemoveAll(root)
	sod.LowercaseNames = false
	db := sod.Open(root)
	defer func() {
		if db != nil {
			db.Close()
		}
	}()
	schema := sod.DefaultSchema
	schema.Cache = p.Cache
	schema.Compress = p.Compress
	if err := db.Create(&Mass{}, schema); err != nil {
		fail("Create: %v", err)
	}
	model := map[int64]string{} // K -> uuid
	flags := map[string]int{}

	// ---- fill
	var batch []sod.Object
	flush := func() {
		if len(batch) == 0 {
			return
		}
		n, err := db.InsertOrUpdateMany(batch...)
		if err != nil || n != len(batch) {
			fail("InsertOrUpdateMany of %d fresh objects with distinct keys: n=%d err=%v", len(batch), n, err)
		}
		for _, o := range batch {
			model[o.(*Mass).K] = o.UUID()
		}
		batch = batch[:0]
	}
	for i := 0; i < p.N; i++ {
		k := int64((i * p.Stride1) % p.N)
		batch = append(batch, &Mass{K: k, S: fmt.Sprint("s", k%7), F: float64(k%13) / 4})
		if len(batch) >= p.Chunk {
			flush()
		}
	}
	flush()

	check := func(db *sod.DB, when string) {
		n, err := db.Count(&Mass{})
		if err != nil || n != len(model) {
			fail("%s: Count=%d err=%v, %d objects are stored", when, n, err, len(model))
		}
		var keys []int64
		if err := db.AssignIndex(&Mass{}, "K", &keys); err != nil {
			fail("%s: AssignIndex: %v", when, err)
		}
		want := make([]int64, 0, len(model))
		for k := range model {
			want = append(want, k)
		}
		sort.Slice(want, func(i, j int) bool { return want[i] > want[j] })
		if len(keys) != len(want) {
			fail("%s: the index of the unique field holds %d values, %d objects are stored", when, len(keys), len(want))
		}
		for i := range want {
			if keys[i] != want[i] {
				fail("%s: the index of the unique field holds %d at position %d, the stored objects have %d there (sorted, %d values)", when, keys[i], i, want[i], len(want))
			}
		}
		// S / F indexes: group sizes
		for v := 0; v < 7; v++ {
			wantN := 0
			for k := range model {
				if k%7 == int64(v) {
					wantN++
				}
			}
			s := db.Search(&Mass{}, "S", "=", fmt.Sprint("s", v))
			if s.Err() != nil || s.Len() != wantN {
				fail("%s: Search(S = s%d) finds %d (err=%v), %d stored objects have that value", when, v, s.Len(), s.Err(), wantN)
			}
		}
		if err := db.Control(); err != nil {
			fail("%s: Control: %v", when, err)
		}
	}
	check(db, "after the fill")

	// ---- delete down to Keep survivors
	order := make([]int64, 0, p.N)
	for i := 0; i < p.N; i++ {
		order = append(order, int64((i*p.Stride2+p.N/3)%p.N))
	}
	var lastDeleted []int64
	del := func(k int64) {
		id, ok := model[k]
		if !ok {
			return
		}
		m := &Mass{}
		m.Initialize(id)
		if err := db.Delete(m); err != nil {
			fail("Delete(K=%d): %v", k, err)
		}
		delete(model, k)
		lastDeleted = append(lastDeleted, k)
	}
	pos := 0
	checkpoints := map[int]bool{p.N / 2: true, p.N / 3: true, p.N / 4: true, p.N / 5: true, p.N / 8: true}
	for len(model) > p.Keep && pos < len(order) {
		k := order[pos]
		pos++
		useRange := p.Mode == "range" || (p.Mode == "mixed" && pos%5 == 0)
		if useRange && len(model) > p.Keep+40 {
			// a range of 20-40 keys at once through a search (never below Keep)
			lo, hi := k, k+20+k%20
			s := db.Search(&Mass{}, "K", ">=", lo).And("K", "<", hi)
			if s.Err() != nil {
				fail("Search(K in [%d,%d)): %v", lo, hi, s.Err())
			}
			wantN := 0
			for x := lo; x < hi; x++ {
				if _, ok := model[x]; ok {
					wantN++
				}
			}
			if s.Len() != wantN {
				fail("Search(K >= %d).And(K < %d) finds %d objects, %d are stored in that range", lo, hi, s.Len(), wantN)
			}
			if err := s.Delete(); err != nil {
				fail("Search(K in [%d,%d)).Delete: %v", lo, hi, err)
			}
			for x := lo; x < hi; x++ {
				if _, ok := model[x]; ok {
					delete(model, x)
					lastDeleted = append(lastDeleted, x)
				}
			}
			flags["range-delete"] = 1
		} else {
			del(k)
		}
		// sizes around powers of two (with and without schema.json counted): directory listings,
		// buffers and growth policies have their boundaries there
		switch n := len(model); n {
		case 1025, 1024, 1023, 513, 512, 511, 257, 256, 255, 129, 128, 127, 65, 64, 63:
			if err := db.Control(); err != nil {
				fail("with %d of %d objects left: Control: %v", n, p.N, err)
			}
			flags["control-at-boundary-size"] = 1
		}
		if checkpoints[len(model)] {
			check(db, fmt.Sprintf("with %d of %d objects left", len(model), p.N))
			delete(checkpoints, len(model))
		}
	}
	check(db, fmt.Sprintf("after deleting down to %d of %d objects", len(model), p.N))

	// ---- uniqueness in both directions
	probes := func(db *sod.DB, when string) {
		var live []int64
		for k := range model {
			live = append(live, k)
		}
		sort.Slice(live, func(i, j int) bool { return live[i] < live[j] })
		sample := live
		if len(sample) > 30 {
			sample = append(append([]int64{}, live[:10]...), live[len(live)-10:]...)
			for i := 10; i < len(live)-10; i += 1 + len(live)/12 {
				sample = append(sample, live[i])
			}
		}
		for _, k := range sample {
			err := db.InsertOrUpdate(&Mass{K: k, S: "dup"})
			if !sod.IsUnique(err) {
				fail("%s: a second object with K=%d (held by a stored object) was not rejected for uniqueness: err=%v", when, k, err)
			}
			s := db.Search(&Mass{}, "K", "=", k)
			if s.Err() != nil || s.Len() != 1 {
				fail("%s: Search(K = %d) finds %d objects (err=%v), exactly one is stored", when, k, s.Len(), s.Err())
			}
			if o, err := s.One(); err != nil || o.UUID() != model[k] {
				fail("%s: Search(K = %d).One returns another object (err=%v)", when, k, err)
			}
		}
		// released values are reusable at once: the most recently deleted ones, the smallest
		// and the largest deleted key
		var rel []int64
		for i := len(lastDeleted) - 1; i >= 0 && len(rel) < 12; i-- {
			rel = append(rel, lastDeleted[i])
		}
		min, max := int64(-1), int64(-1)
		for _, k := range lastDeleted {
			if _, back := model[k]; back {
				continue
			}
			if min < 0 || k < min {
				min = k
			}
			if k > max {
				max = k
			}
		}
		rel = append(rel, min, max)
		for _, k := range rel {
			if _, stored := model[k]; stored || k < 0 {
				continue
			}
			o := &Mass{K: k, S: fmt.Sprint("s", k%7), F: float64(k%13) / 4}
			if err := db.InsertOrUpdate(o); err != nil {
				fail("%s: K=%d was released by a delete, but a new object with it is rejected: %v", when, k, err)
			}
			model[k] = o.UUID()
			flags["released-value-reused"] = 1
		}
	}
	probes(db, "after the deletions")
	check(db, "after reusing released values")

	// ---- reopen
	if err := db.Close(); err != nil {
		fail("Close: %v", err)
	}
	db = sod.Open(root)
	if _, err := db.Count(&Mass{}); err != nil {
		fail("after Close and Open the collection does not load: %v", err)
	}
	check(db, "after reopen")
	probes(db, "after reopen")
	check(db, "after reopen and reuse")
	if p.Cache {
		flags["cfg-cache"] = 1
	}
	flags["mass-mode-"+p.Mode] = 1
	flags["mass-collection"] = 1
	st.Case(prog.Hash(), len(model) < p.N/4, flags, func() interface{} { return prog })
}

func init() {
	replayAlts = append(replayAlts, replayAlt{prop: "C03", match: hasAux("mass"), run: func(t *testing.T, prog *Program) {
		guardT(t, prog, func() { caseC03Mass(t, prog) })
	}})
}
