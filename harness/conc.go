package props

import (
	"fmt"
	"runtime"
	"sort"
	"strings"
	"sync"
	"time"

	"github.com/0xrawsec/sod"
)

// ---------------------------------------------------------------- concurrent programs

// COp is one call issued by a worker goroutine.
type COp struct {
	Kind  string     `json:"kind"`
	D     *Doc       `json:"d,omitempty"`
	Ref   int        `json:"ref,omitempty"`
	Sets  []FieldSet `json:"sets,omitempty"`
	Q     *Query     `json:"q,omitempty"`
	Batch []COp      `json:"batch,omitempty"` // members of a Many call: insert / update
	Path  string     `json:"path,omitempty"`
}

// Event is one completed call of the recorded history.
type Event struct {
	Worker int
	Op     COp
	ID     string // target uuid (known before the call) or assigned uuid (insert)
	Call   int64
	Ret    int64
	// outputs
	Class string   // outcome class
	N     int      // count / Len / n of Many
	Val   string   // canonical JSON (Get)
	Set   []string // All / AssignAll: sorted "uuid:canon"
	Keys  string   // AssignIndex
	Bool  bool
	IDs   []string // uuids assigned to batch members
}

var lockStates = []string{"sync.RWMutex.Lock", "sync.RWMutex.RLock", "sync.Mutex.Lock", "semacquire", "sync.Cond.Wait"}

// allKinds: every public entry point; linKinds: those whose calls are atomic
// pieces with fully observable inputs/outputs (usable by the linearizability oracle).
var (
	linKinds = []string{"get", "getByUUID", "exist", "count", "all", "assignAll", "assignIndex", "searchLen", "insert", "update", "delete", "many", "schema", "control"}
	allKinds = append(append([]string{}, linKinds...), "searchCollect", "searchChain", "searchOne", "searchDelete", "deleteAll", "flushAll", "flushAllCommit", "commit", "createAgain", "bulk", "iterCount", "repair", "otherCount", "otherInsert", "otherAll", "otherSearch", "asyncOff", "asyncOn", "cacheToggle", "o2create", "o2insert")
)

func (g *G) COp(kinds []string) COp {
	k := pickU(g, kinds, "ckind")
	op := COp{Kind: k, Ref: g.uni(64, "cref")}
	switch k {
	case "insert":
		op.D = g.Doc()
		op.D.H = Hooks{}
	case "update":
		op.Sets = g.Sets()
	case "many", "bulk":
		n := 1 + g.uni(3, "nbatch")
		for i := 0; i < n; i++ {
			if g.pct("bupd") < 40 {
				op.Batch = append(op.Batch, COp{Kind: "update", Ref: g.uni(64, "bref"), Sets: g.Sets()})
			} else {
				d := g.Doc()
				d.H = Hooks{}
				op.Batch = append(op.Batch, COp{Kind: "insert", D: d})
			}
		}
	case "searchLen", "searchCollect", "searchOne", "searchDelete":
		q := g.Query()
		q.Leaves = q.Leaves[:1]
		q.Limit, q.Reverse = nil, false
		op.Q = q
	case "searchChain":
		q := g.Query()
		if len(q.Leaves) < 2 {
			q.Leaves = append(q.Leaves, g.Leaf(pickU(g, []string{"and", "or"}, "conn")))
		}
		q.Limit, q.Reverse = nil, false
		op.Q = q
	case "assignIndex":
		if ip := g.cfg.IndexedPaths(); len(ip) > 0 {
			op.Path = pickU(g, ip, "ipath").Path
		} else {
			op.Kind = "count"
		}
	}
	return op
}

// runWorker executes the ops of one worker and records events.
func runWorker(db *sod.DB, e *Env, w int, ops []COp, known []string, base map[string]*Doc, t0 time.Time, out *[]Event) {
	pickID := func(ref int) string {
		if len(known) == 0 {
			return seedUUID(0xdead)
		}
		return known[ref%len(known)]
	}
	for _, op := range ops {
		ev := Event{Worker: w, Op: op}
		call := func(f func()) {
			ev.Call = int64(time.Since(t0))
			f()
			ev.Ret = int64(time.Since(t0))
			*out = append(*out, ev)
		}
		switch op.Kind {
		case "get", "getByUUID":
			ev.ID = pickID(op.Ref)
			call(func() {
				var o sod.Object
				var err error
				if op.Kind == "get" {
					d := &Doc{}
					d.Initialize(ev.ID)
					o, err = db.Get(d)
				} else {
					o, err = db.GetByUUID(&Doc{}, ev.ID)
				}
				ev.Class = classify(err)
				if err == nil {
					ev.Val = canon(o)
				}
			})
		case "exist":
			ev.ID = pickID(op.Ref)
			call(func() {
				d := &Doc{}
				d.Initialize(ev.ID)
				ok, err := db.Exist(d)
				ev.Class, ev.Bool = classify(err), ok
			})
		case "count", "iterCount":
			call(func() { n, err := db.Count(&Doc{}); ev.Class, ev.N = classify(err), n })
		case "all", "assignAll":
			call(func() {
				var objs []sod.Object
				var err error
				if op.Kind == "all" {
					objs, err = db.All(&Doc{})
				} else {
					var docs []*Doc
					err = db.AssignAll(&Doc{}, &docs)
					for _, d := range docs {
						objs = append(objs, d)
					}
				}
				ev.Class = classify(err)
				for _, o := range objs {
					ev.Set = append(ev.Set, o.UUID()+":"+canon(o))
				}
				sort.Strings(ev.Set)
			})
		case "assignIndex":
			p := docPathIndex[op.Path]
			call(func() { ev.Keys = e.assignIndex(db, p) })
		case "searchLen":
			call(func() {
				s := e.runQuery(db, *op.Q)
				ev.Class, ev.N = classify(s.Err()), s.Len()
			})
		case "searchCollect", "searchChain":
			call(func() {
				s := e.runQuery(db, *op.Q)
				if s.Err() == nil {
					objs, err := s.Collect()
					ev.Class, ev.N = classify(err), len(objs)
				}
			})
		case "searchOne":
			call(func() { _, err := e.runQuery(db, *op.Q).One(); ev.Class = classify(err) })
		case "searchDelete":
			call(func() {
				s := e.runQuery(db, *op.Q)
				if s.Err() == nil {
					ev.Class = classify(s.Delete())
				}
			})
		case "insert":
			d := cloneDoc(op.D)
			call(func() {
				err := db.InsertOrUpdate(d)
				ev.Class, ev.ID = classify(err), d.UUID()
			})
		case "update":
			ev.ID = pickID(op.Ref)
			d := &Doc{}
			if b, ok := base[ev.ID]; ok {
				d = cloneDoc(b)
			}
			d.H = Hooks{}
			applySets(d, op.Sets)
			d.Initialize(ev.ID)
			ev.Op.D = cloneDoc(d)
			call(func() { ev.Class = classify(db.InsertOrUpdate(d)) })
		case "delete":
			ev.ID = pickID(op.Ref)
			call(func() {
				d := &Doc{}
				d.Initialize(ev.ID)
				ev.Class = classify(db.Delete(d))
			})
		case "many", "bulk":
			var args []sod.Object
			resolved := make([]COp, len(op.Batch))
			for i, m := range op.Batch {
				var d *Doc
				if m.Kind == "update" {
					id := pickID(m.Ref)
					d = &Doc{}
					if b, ok := base[id]; ok {
						d = cloneDoc(b)
					}
					d.H = Hooks{}
					applySets(d, m.Sets)
					d.Initialize(id)
				} else {
					d = cloneDoc(m.D)
				}
				resolved[i] = COp{Kind: m.Kind, D: cloneDoc(d)}
				args = append(args, d)
			}
			ev.Op.Batch = resolved
			call(func() {
				var n int
				var err error
				if op.Kind == "many" {
					n, err = db.InsertOrUpdateMany(args...)
				} else {
					// the producer feeds an unbuffered channel and reads from the same handle between
					// two sends, as a program converting one collection into another would
					ch := make(chan sod.Object)
					go func() {
						defer close(ch)
						for i, a := range args {
							ch <- a
							if i%2 == 0 {
								db.Count(&Doc{})
							} else {
								db.GetByUUID(&Doc{}, pickID(i))
							}
						}
					}()
					n, err = db.InsertOrUpdateBulk(ch, 2)
				}
				ev.Class, ev.N = classify(err), n
				for _, a := range args {
					ev.IDs = append(ev.IDs, a.UUID())
				}
			})
		case "flushOne":
			// Flush writes the object it is given: use a stored one (programs of this class never delete)
			ev.ID = pickID(op.Ref)
			if b, ok := base[ev.ID]; ok {
				o := cloneDoc(b)
				call(func() {
					err := db.Flush(o)
					ev.Class = classify(err)
					if err != nil {
						ev.Val = err.Error() // judged after the workers have joined
					}
				})
			}
		case "deleteAll":
			call(func() { ev.Class = classify(db.DeleteAll(&Doc{})) })
		case "flushAll":
			call(func() { ev.Class = classify(db.FlushAll(&Doc{})) })
		case "flushAllCommit":
			call(func() { ev.Class = classify(db.FlushAllAndCommit(&Doc{})) })
		case "commit":
			call(func() { ev.Class = classify(db.Commit(&Doc{})) })
		case "control":
			call(func() { db.Control() })
		case "schema":
			call(func() { _, err := db.Schema(&Doc{}); ev.Class = classify(err) })
		case "createAgain":
			call(func() { ev.Class = classify(db.Create(&Doc{}, e.cfg.Schema())) })
		case "repair":
			call(func() { ev.Class = classify(db.Repair(&Doc{})) })
		// settings switches through Create on the live handle
		case "asyncOff", "asyncOn", "cacheToggle":
			nc := e.cfg
			switch op.Kind {
			case "asyncOff":
				nc.Async = nil
			case "asyncOn":
				nc.Async = &AsyncCfg{Threshold: 1 + op.Ref%4, TimeoutMs: 100 * (1 + op.Ref%3)}
			default:
				nc.Cache = op.Ref%2 == 0
			}
			call(func() { ev.Class = classify(db.Create(&Doc{}, nc.Schema())) })
		// a second collection on the same handle (its schema may be loaded for the
		// first time while other goroutines use the first collection)
		case "otherCount":
			call(func() { n, err := db.Count(&Other{}); ev.Class, ev.N = classify(err), n })
		case "otherAll":
			call(func() { _, err := db.All(&Other{}); ev.Class = classify(err) })
		case "otherInsert":
			call(func() { ev.Class = classify(db.InsertOrUpdate(&Other{K: int64(op.Ref), V: "v"})) })
		case "otherSearch":
			call(func() { _, err := db.Search(&Other{}, "K", ">=", int64(0)).Collect(); ev.Class = classify(err) })
		case "o2create":
			// the first Create of a collection, possibly raced by other workers
			call(func() { ev.Class = classify(db.Create(&Other2{}, sod.DefaultSchema)) })
		case "o2insert":
			call(func() { ev.Class = classify(db.InsertOrUpdate(&Other2{K: int64(w*100 + op.Ref), V: "v"})) })
		}
	}
}

// c09Worker is a marker frame: the watchdog finds worker goroutines by it.
func c09Worker(wg *sync.WaitGroup, f func()) {
	defer wg.Done()
	f()
}

type goroutineDump struct {
	state string
	stack string
}

func dumpGoroutines() []goroutineDump {
	buf := make([]byte, 1<<20)
	n := runtime.Stack(buf, true)
	var out []goroutineDump
	for _, blk := range strings.Split(string(buf[:n]), "\n\n") {
		if !strings.HasPrefix(blk, "goroutine ") {
			continue
		}
		line := blk
		if i := strings.IndexByte(blk, '\n'); i >= 0 {
			line = blk[:i]
		}
		st := ""
		if i := strings.IndexByte(line, '['); i >= 0 {
			st = strings.TrimSuffix(line[i+1:], "]:")
			if j := strings.IndexByte(st, ','); j >= 0 {
				st = st[:j]
			}
		}
		out = append(out, goroutineDump{state: st, stack: blk})
	}
	return out
}

// stuckInLocks reports whether every unfinished worker (and every flusher)
// sits in a lock acquisition; the second result is a readable summary.
func stuckInLocks() (bool, string) {
	all := true
	var lines []string
	found := 0
	for _, g := range dumpGoroutines() {
		isWorker := strings.Contains(g.stack, "props.c09Worker")
		isFlusher := strings.Contains(g.stack, "startAsyncWritesRoutine")
		if !isWorker && !isFlusher {
			continue
		}
		found++
		inLock := false
		for _, ls := range lockStates {
			if g.state == ls {
				inLock = true
			}
		}
		if !inLock {
			all = false
		}
		top := g.stack
		if parts := strings.SplitN(g.stack, "\n", 8); len(parts) > 7 {
			top = strings.Join(parts[:7], "\n")
		}
		lines = append(lines, fmt.Sprintf("[%s] %s", g.state, top))
	}
	return all && found > 0, strings.Join(lines, "\n---\n")
}

// finalConsistency: whatever interleaving happened, once the workers are done and
// pending writes are flushed the handle is consistent: Control is nil, and Count,
// All and the set of object files agree (for both collections).
func finalConsistency(e *Env, db *sod.DB) {
	asyncNow := false
	if sch, err := db.Schema(&Doc{}); err == nil && sch.AsyncWrites != nil && sch.AsyncWrites.Enable {
		asyncNow = true
	}
	if asyncNow {
		if err := db.FlushAllAndCommit(&Doc{}); err != nil {
			e.failf("after the concurrent phase: FlushAllAndCommit: %v", err)
		}
	}
	if err := db.Control(); err != nil {
		e.failf("after the concurrent phase (everything flushed): Control reports %v", err)
	}
	n, err := db.Count(&Doc{})
	if err != nil {
		e.failf("after the concurrent phase: Count: %v", err)
	}
	objs, err := db.All(&Doc{})
	if err != nil || len(objs) != n {
		e.failf("after the concurrent phase: All returns %d objects (err=%v), Count says %d", len(objs), err, n)
	}
	w := WalkDir(e.collDir())
	if len(w.Objects) != n {
		e.failf("after the concurrent phase: %d object files on disk, Count says %d", len(w.Objects), n)
	}
	for _, o := range objs {
		f, ok := w.Objects[o.UUID()]
		if !ok || string(f.Body) != canon(o) {
			e.failf("after the concurrent phase: object %s read as %s but its file holds %s", o.UUID(), canon(o), func() string {
				if ok {
					return string(f.Body)
				}
				return "nothing (no file)"
			}())
		}
	}
}
