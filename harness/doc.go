package props

import (
	"encoding/json"
	"errors"
	"fmt"
	"math"
	"reflect"
	"strings"
	"time"

	"github.com/0xrawsec/sod"
)

// ---------------------------------------------------------------- document types

type Inner struct {
	S string
	N int64
	F float64
	T time.Time
	U uint16
}

type Emb struct {
	ES string
	EN int32
}

// Hooks make Transform/Validate data driven (C15).
type Hooks struct {
	Append    string // Transform: S += Append
	Bump      bool   // Transform: I64++ (saturating)
	RejectS   string // Validate: reject when S == RejectS (non-empty)
	RejectLen int    // Validate: reject when RejectLen > 0 and len(S) >= RejectLen
}

// Doc is the one rich document type; which of its paths are indexed / unique /
// upper / lower is decided per case through a custom schema.
type Doc struct {
	sod.Item
	Emb
	I8  int8
	I16 int16
	I32 int32
	I64 int64
	I   int
	U8  uint8
	U16 uint16
	U32 uint32
	U64 uint64
	U   uint
	F32 float32
	F64 float64
	S   string
	S2  string
	T   time.Time
	B   bool
	In  Inner
	Pt  *Inner
	PI  *int
	PPI **int
	Sl  []string
	SlP []*Inner
	M   map[string]int
	MI  map[int]string
	MS  map[string][]*Inner
	Any interface{}
	Arr [3]int
	H   Hooks

	seen string // what Validate saw (canonical JSON); unexported => not stored
}

var ErrHookReject = errors.New("rejected by Validate hook")

// hookNaN as H.Append makes Transform derive a value that cannot be serialised (a ratio 0/0):
// the object is fine as the caller passes it and unstorable once its own hook has run.
const hookNaN = "\x00nan"

func (d *Doc) Transform() {
	if d.H.Append == hookNaN {
		d.F64 = math.NaN()
		return
	}
	if d.H.Append != "" {
		d.S += d.H.Append
	}
	if d.H.Bump && d.I64 < 1<<62 {
		d.I64++
	}
}

func (d *Doc) Validate() error {
	d.seen = canon(d)
	if d.H.RejectS != "" && d.S == d.H.RejectS {
		return ErrHookReject
	}
	if d.H.RejectLen > 0 && len(d.S) >= d.H.RejectLen {
		return ErrHookReject
	}
	return nil
}

// Other is a second collection type (multi-collection cases, wrong-type batches).
type Other struct {
	sod.Item
	K int64
	V string
}

// canon is the canonical JSON of an object: equality of stored values is
// equality of canon (this is what persistence defines).
func canon(v interface{}) string {
	b, err := json.Marshal(v)
	if err != nil {
		return "!marshal:" + err.Error()
	}
	return string(b)
}

// cloneDoc is the model's own deep copy (never sod.CloneObject): a JSON round
// trip, which is exactly the identity the storage format defines, plus the uuid.
func cloneDoc(d *Doc) *Doc {
	if d == nil {
		return nil
	}
	b, err := json.Marshal(d)
	if err != nil {
		panic(err)
	}
	out := &Doc{}
	if err := json.Unmarshal(b, out); err != nil {
		panic(err)
	}
	out.Initialize(d.UUID())
	return out
}

// ---------------------------------------------------------------- paths

// value classes
const (
	ClsInt   = "int64"
	ClsUint  = "uint64"
	ClsFloat = "float64"
	ClsStr   = "string"
	ClsNone  = "" // not castable: cannot be indexed
)

type PathInfo struct {
	Path  string
	Type  string // reflect type string of the leaf
	Class string
	Time  bool
	Bits  int // width for ints/uints/floats
}

var (
	docPaths     []PathInfo          // every descriptor path of Doc
	docPathIndex map[string]PathInfo // by path
	castable     []PathInfo          // searchable/indexable leaves
	stringPaths  []PathInfo
)

func classOf(t reflect.Type) (cls string, isTime bool, bits int) {
	if t == reflect.TypeOf(time.Time{}) {
		return ClsInt, true, 64
	}
	switch t.Kind() {
	case reflect.Int, reflect.Int64:
		return ClsInt, false, 64
	case reflect.Int8:
		return ClsInt, false, 8
	case reflect.Int16:
		return ClsInt, false, 16
	case reflect.Int32:
		return ClsInt, false, 32
	case reflect.Uint, reflect.Uint64:
		return ClsUint, false, 64
	case reflect.Uint8:
		return ClsUint, false, 8
	case reflect.Uint16:
		return ClsUint, false, 16
	case reflect.Uint32:
		return ClsUint, false, 32
	case reflect.Float32:
		return ClsFloat, false, 32
	case reflect.Float64:
		return ClsFloat, false, 64
	case reflect.String:
		return ClsStr, false, 0
	}
	return ClsNone, false, 0
}

func walkPaths(t reflect.Type, prefix string, out *[]PathInfo) {
	for i := 0; i < t.NumField(); i++ {
		f := t.Field(i)
		if !f.IsExported() {
			continue
		}
		p := f.Name
		if prefix != "" {
			p = prefix + "." + f.Name
		}
		ft := f.Type
		if ft.Kind() == reflect.Ptr && ft.Elem().Kind() == reflect.Struct {
			walkPaths(ft.Elem(), p, out)
			continue
		}
		if ft.Kind() == reflect.Struct && ft != reflect.TypeOf(time.Time{}) {
			walkPaths(ft, p, out)
			continue
		}
		cls, isTime, bits := classOf(ft)
		*out = append(*out, PathInfo{Path: p, Type: ft.String(), Class: cls, Time: isTime, Bits: bits})
	}
}

func init() {
	walkPaths(reflect.TypeOf(Doc{}), "", &docPaths)
	docPathIndex = map[string]PathInfo{}
	for _, p := range docPaths {
		docPathIndex[p.Path] = p
		if p.Class != ClsNone {
			castable = append(castable, p)
			if p.Class == ClsStr {
				stringPaths = append(stringPaths, p)
			}
		}
	}
}

// leaf returns the value at path, treating a nil pointer on the way as the zero
// struct (pinned semantics 1 of DESIGN §2).
func leaf(d *Doc, path string) reflect.Value {
	v := reflect.ValueOf(d).Elem()
	for _, name := range strings.Split(path, ".") {
		if v.Kind() == reflect.Ptr {
			if v.IsNil() {
				v = reflect.Zero(v.Type().Elem())
			} else {
				v = v.Elem()
			}
		}
		v = v.FieldByName(name)
		if !v.IsValid() {
			panic("bad path " + path)
		}
	}
	return v
}

// settable leaf: allocates nil pointers on the way.
func leafForSet(d *Doc, path string) reflect.Value {
	v := reflect.ValueOf(d).Elem()
	for _, name := range strings.Split(path, ".") {
		if v.Kind() == reflect.Ptr {
			if v.IsNil() {
				v.Set(reflect.New(v.Type().Elem()))
			}
			v = v.Elem()
		}
		v = v.FieldByName(name)
	}
	return v
}

// Val is a JSON-serialisable scalar of one of the four classes (or a time).
type Val struct {
	K string    `json:"k"` // i u f s t
	I int64     `json:"i,omitempty"`
	U uint64    `json:"u,omitempty"`
	F float64   `json:"f,omitempty"`
	S string    `json:"s,omitempty"`
	T time.Time `json:"t,omitempty"`
	// Narrow: pass the probe to sod as the field's own narrower Go type
	Narrow bool `json:"n,omitempty"`
}

func (v Val) String() string {
	switch v.K {
	case "i":
		return fmt.Sprintf("i:%d", v.I)
	case "u":
		return fmt.Sprintf("u:%d", v.U)
	case "f":
		return fmt.Sprintf("f:%v", v.F)
	case "s":
		return fmt.Sprintf("s:%q", v.S)
	case "t":
		return "t:" + v.T.Format(time.RFC3339Nano)
	case "nil":
		return "nil"
	case "b":
		return "bool"
	case "nan":
		return "f:NaN"
	}
	return "?" + v.K
}

// class of the probe once sod has normalised it
func (v Val) Class() string {
	switch v.K {
	case "i", "t":
		return ClsInt
	case "u":
		return ClsUint
	case "f", "nan":
		return ClsFloat
	case "s":
		return ClsStr
	}
	return ClsNone
}

// Go value handed to sod as search value
func (v Val) Iface(p PathInfo) interface{} {
	switch v.K {
	case "nan":
		// a well-typed float that has no place in the ordering: results are unspecified, but
		// must not depend on the storage configuration (C12)
		if p.Type == "float32" && v.Narrow {
			return float32(math.NaN())
		}
		return math.NaN()
	case "i":
		if v.Narrow {
			switch p.Type {
			case "int8":
				if int64(int8(v.I)) == v.I {
					return int8(v.I)
				}
			case "int16":
				if int64(int16(v.I)) == v.I {
					return int16(v.I)
				}
			case "int32":
				if int64(int32(v.I)) == v.I {
					return int32(v.I)
				}
			case "int":
				return int(v.I)
			}
		}
		return v.I
	case "u":
		if v.Narrow {
			switch p.Type {
			case "uint8":
				if uint64(uint8(v.U)) == v.U {
					return uint8(v.U)
				}
			case "uint16":
				if uint64(uint16(v.U)) == v.U {
					return uint16(v.U)
				}
			case "uint32":
				if uint64(uint32(v.U)) == v.U {
					return uint32(v.U)
				}
			case "uint":
				return uint(v.U)
			}
		}
		return v.U
	case "f":
		if v.Narrow && p.Type == "float32" && float64(float32(v.F)) == v.F {
			return float32(v.F)
		}
		return v.F
	case "s":
		return v.S
	case "t":
		return v.T
	case "nil":
		return nil
	case "b":
		return true
	case "struct":
		return struct{ X int }{1}
	}
	return nil
}

// normalised stored value at a path as (class, value)
type norm struct {
	cls string
	i   int64
	u   uint64
	f   float64
	s   string
}

func normLeaf(d *Doc, p PathInfo) norm {
	v := leaf(d, p.Path)
	switch p.Class {
	case ClsInt:
		if p.Time {
			return norm{cls: ClsInt, i: v.Interface().(time.Time).UTC().UnixNano()}
		}
		return norm{cls: ClsInt, i: v.Int()}
	case ClsUint:
		return norm{cls: ClsUint, u: v.Uint()}
	case ClsFloat:
		return norm{cls: ClsFloat, f: v.Float()}
	case ClsStr:
		return norm{cls: ClsStr, s: v.String()}
	}
	return norm{}
}

func normVal(v Val) norm {
	switch v.K {
	case "i":
		return norm{cls: ClsInt, i: v.I}
	case "t":
		return norm{cls: ClsInt, i: v.T.UTC().UnixNano()}
	case "u":
		return norm{cls: ClsUint, u: v.U}
	case "f":
		return norm{cls: ClsFloat, f: v.F}
	case "s":
		return norm{cls: ClsStr, s: v.S}
	}
	return norm{}
}

// cmp: -1, 0, 1 under the class ordering
func (a norm) cmp(b norm) int {
	switch a.cls {
	case ClsInt:
		switch {
		case a.i < b.i:
			return -1
		case a.i > b.i:
			return 1
		}
	case ClsUint:
		switch {
		case a.u < b.u:
			return -1
		case a.u > b.u:
			return 1
		}
	case ClsFloat:
		switch {
		case a.f < b.f:
			return -1
		case a.f > b.f:
			return 1
		}
	case ClsStr:
		return strings.Compare(a.s, b.s)
	}
	return 0
}

// setLeaf assigns a Val to a castable path (used by update ops).
func setLeaf(d *Doc, p PathInfo, v Val) {
	lv := leafForSet(d, p.Path)
	switch p.Class {
	case ClsInt:
		if p.Time {
			lv.Set(reflect.ValueOf(v.T))
		} else {
			lv.SetInt(clampInt(v.I, p.Bits))
		}
	case ClsUint:
		lv.SetUint(clampUint(v.U, p.Bits))
	case ClsFloat:
		if p.Bits == 32 {
			lv.SetFloat(float64(float32(v.F)))
		} else {
			lv.SetFloat(v.F)
		}
	case ClsStr:
		lv.SetString(v.S)
	}
}

func clampInt(i int64, bits int) int64 {
	if bits >= 64 {
		return i
	}
	max := int64(1)<<(bits-1) - 1
	min := -max - 1
	if i > max {
		return max
	}
	if i < min {
		return min
	}
	return i
}

func clampUint(u uint64, bits int) uint64 {
	if bits >= 64 {
		return u
	}
	max := uint64(1)<<bits - 1
	if u > max {
		return max
	}
	return u
}
