package props

import (
	"encoding/base64"
	"fmt"
	"os"
	"path/filepath"
	"sync"
	"testing"

	"github.com/0xrawsec/sod"
)

// ---------------------------------------------------------------- C19: native fuzz targets (thorough tier)
//
// Byte-level, coverage-guided: the whole content of schema.json (or of one
// object file) of a small valid database is the fuzz input; the in-target oracle
// is the same battery under recover() and a watchdog as in TestC19.

type fuzzTemplate struct {
	cfg   Config
	files map[string][]byte // relative to the root
	uuids []string
}

var (
	tmplOnce sync.Once
	tmpl     *fuzzTemplate
)

func fuzzConfig() Config {
	return Config{Ext: ".json", Cons: map[string]Cons{
		"S": {Index: true}, "I64": {Index: true, Unique: true}, "F64": {Index: true}, "T": {Index: true}, "U8": {Index: true}, "S2": {Upper: true},
	}}
}

func template() *fuzzTemplate {
	tmplOnce.Do(func() {
		cfg := fuzzConfig()
		root := newRoot()
		defer os.RemoveAll(root)
		sod.LowercaseNames = false
		db := sod.Open(root)
		if err := db.Create(&Doc{}, cfg.Schema()); err != nil {
			panic(err)
		}
		t := &fuzzTemplate{cfg: cfg, files: map[string][]byte{}}
		for i := 0; i < 4; i++ {
			d := &Doc{S: fmt.Sprint("s", i%2), I64: int64(i) * 1577836800123456789 / 3, F64: float64(i) / 3, U8: uint8(i), T: baseTime.Add(0), S2: "x"}
			if err := db.InsertOrUpdate(d); err != nil {
				panic(err)
			}
			t.uuids = append(t.uuids, d.UUID())
		}
		db.Close()
		filepath.Walk(root, func(p string, info os.FileInfo, err error) error {
			if err == nil && !info.IsDir() {
				rel, _ := filepath.Rel(root, p)
				t.files[rel], _ = os.ReadFile(p)
			}
			return nil
		})
		tmpl = t
	})
	return tmpl
}

// fuzzBattery: write the template with one file replaced, run the API battery.
func fuzzBattery(t TB, which string, data []byte) {
	tp := template()
	root := newRoot()
	defer os.RemoveAll(root)
	target := filepath.Join("props.Doc", "schema.json")
	if which == "object" {
		target = filepath.Join("props.Doc", tp.uuids[0]+".json")
	}
	for rel, b := range tp.files {
		p := filepath.Join(root, rel)
		os.MkdirAll(filepath.Dir(p), 0700)
		if rel == target {
			b = data
		}
		os.WriteFile(p, b, 0700)
	}
	prog := &Program{Property: "C19", Cfg: tp.cfg, Aux: map[string]interface{}{"fuzz": which, "data": base64.StdEncoding.EncodeToString(data)}}
	fail := func(what string, p interface{}, stk string, hung bool) {
		if hung {
			msg := fmt.Sprintf("fuzz(%s): %s did not return within the watchdog period", which, what)
			recordFailure(prog, msg)
			t.Fatalf("%s", msg)
		}
		if p != nil {
			msg := fmt.Sprintf("fuzz(%s): %s panicked: %v\n%s", which, what, p, stk)
			recordFailure(prog, msg)
			t.Fatalf("%s", msg)
		}
	}
	sod.LowercaseNames = false
	db := sod.Open(root)
	defer func() { protect("close", func() { db.Close() }) }()
	call := func(name string, f func()) {
		p, stk, hung := protect(name, f)
		fail(name, p, stk, hung)
	}
	call("Count", func() { db.Count(&Doc{}) })
	call("Control", func() { db.Control() })
	call("All", func() { db.All(&Doc{}) })
	for _, id := range tp.uuids {
		id := id
		call("Get", func() { d := &Doc{}; d.Initialize(id); db.Get(d) })
	}
	for _, path := range []string{"S", "I64", "F64", "T", "U8", "S2", "Pt.S"} {
		path := path
		pi := docPathIndex[path]
		for _, op := range []string{"=", "<", ">=", "!=", "~="} {
			op := op
			call("Search "+path+op, func() {
				s := db.Search(&Doc{}, path, op, valOfNorm(norm{cls: pi.Class}, pi).Iface(pi))
				s.Len()
				s.Collect()
				s.And("S", "=", "s0").Or("I64", ">", int64(0)).Collect()
			})
		}
	}
	call("InsertOrUpdate", func() { db.InsertOrUpdate(&Doc{S: "fresh", I64: 42}) })
	call("InsertOrUpdate existing", func() { d := &Doc{S: "upd", I64: 43}; d.Initialize(tp.uuids[1]); db.InsertOrUpdate(d) })
	call("Delete", func() { d := &Doc{}; d.Initialize(tp.uuids[2]); db.Delete(d) })
	call("Repair", func() { db.Repair(&Doc{}) })
	call("Control after Repair", func() { db.Control() })
	call("Create", func() { db.Create(&Doc{}, tp.cfg.Schema()) })
	call("DeleteAll", func() { db.DeleteAll(&Doc{}) })
	call("Close", func() { db.Close() })
}

func hostileSeeds(valid []byte) [][]byte {
	s := string(valid)
	return [][]byte{
		valid, []byte(""), []byte("{}"), []byte("null"), []byte("[]"), []byte(`{"index":null}`), []byte(`{"fields":null,"index":{"fields":null,"object-ids":null}}`),
		[]byte(`{"extension":".json","index":{"fields":{"S":{"name":"S","cast":"string","index":[[1,2,3]]}},"object-ids":{"0":"x"}}}`),
		[]byte(`{"extension":".json","index":{"fields":{"I64":{"name":"I64","cast":"int64","index":[["a",0]]}},"object-ids":{"0":"00000000-0000-4000-8000-000000000000"}}}`),
		[]byte(`{"extension":".json","async-writes":{"enable":true,"threshold":0,"timeout":"zz"}}`),
		[]byte(s[:len(s)/2]), []byte(s + s),
	}
}

func FuzzSchemaBytes(f *testing.F) {
	tp := template()
	for _, s := range hostileSeeds(tp.files[filepath.Join("props.Doc", "schema.json")]) {
		f.Add(s)
	}
	for _, dir := range goldenDirs() {
		if len(dir) > 0 && dir[len(dir)-1]%4 == 0 { // a quarter of the golden schemas as seeds
			ents, _ := filepath.Glob(filepath.Join(dir, "db", "*", "schema.json"))
			for _, e := range ents {
				if b, err := os.ReadFile(e); err == nil && len(b) < 1<<16 {
					f.Add(b)
				}
			}
		}
	}
	f.Fuzz(func(t *testing.T, data []byte) { fuzzBattery(t, "schema", data) })
}

func FuzzObjectBytes(f *testing.F) {
	tp := template()
	valid := tp.files[filepath.Join("props.Doc", tp.uuids[0]+".json")]
	for _, s := range [][]byte{valid, []byte(""), []byte("{}"), []byte("null"), []byte(`{"I64":"x"}`), []byte(`{"Pt":{"T":"notatime"}}`), []byte(`{"M":{"a":{}}}`), valid[:len(valid)/2]} {
		f.Add(s)
	}
	f.Fuzz(func(t *testing.T, data []byte) { fuzzBattery(t, "object", data) })
}

func init() {
	replayAlts = append(replayAlts, replayAlt{"C19", hasAux("fuzz"), func(t *testing.T, prog *Program) {
		data, _ := base64.StdEncoding.DecodeString(prog.Aux["data"].(string))
		fuzzBattery(t, prog.Aux["fuzz"].(string), data)
	}})
}
