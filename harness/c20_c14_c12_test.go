package props

import (
	"fmt"
	"reflect"
	"strings"
	"testing"
	"time"

	"github.com/0xrawsec/sod"
	"pgregory.net/rapid"
)

// ---------------------------------------------------------------- C20

var propC20 = &modelProp{
	id: "C20",
	profile: func() *Profile {
		return &Profile{
			Property: "C20", MaxOps: pick(12, 28),
			W:          map[string]int{"insert": 9, "update": 2, "delete": 1, "many": 1, "snapshot": 9, "reopen": 1},
			AllowCache: true, AllowCompress: true, AllowAsync: true,
			MinIndexed: 1, MaxIndexed: 4, MaxUnique: 1, CasePaths: 0,
			ConsPaths: []string{"I64", "I8", "U8", "U64", "F64", "S", "T", "In.N", "Pt.S", "Emb.EN"},
			TinyBias:  55, BigBias: 8, HookBias: 0, RichShape: 0, MaxLeaves: 2,
			IndexedLastPct: 65, AndOnlyPct: 60,
		}
	},
	opts: RunOpts{SweepLevel: 1, SweepEveryOp: false, Control: true},
	nt: func(e *Env) bool {
		return e.flags["snapshot-write-inside-range"] > 0 || e.flags["snapshot-member-deleted"] > 0
	},
	rule: "a search (all operators, single leaf or And/Or chain, indexed and unindexed last path) is evaluated, then 1-6 generated writes are performed (inserts placed at/near the probe, key-moving updates on the searched path, deletes and resurrections of members and non-members, small batches, bursts of inserts that exceed the index slice capacity), then the outstanding search is consumed (Collect or Assign). Oracle with M = model match set at evaluation time and D = members deleted since: Len() unchanged; D empty => collected uuid multiset == M exactly; else an error or a duplicate-free S with M\\D subset S subset M; never an object outside M. Derived searches: a refinement (And/Or) derived from the outstanding search BEFORE the writes is itself a snapshot and must not be disturbed by a sibling derived AFTER the writes; a refinement derived after the writes works on the snapshot (And never returns an object outside M); dedicated shapes: a parent matching every object followed by as many deletes as inserts, and a parent that is itself an Or product over tag-like values with two sibling Ors. Non-trivial: >=1 intervening write lands inside the key range of the result, or a member is deleted. Distinct by program hash.",
}

func init() { propC20.register() }

func TestC20(t *testing.T) { propC20.test(t) }

// ---------------------------------------------------------------- C14

// scramble mutates everything reachable from v (pointer targets, slice
// elements, map entries, scalars), except unexported fields and sod.Item.
func scramble(v reflect.Value, depth int) int {
	n := 0
	if depth > 8 {
		return 0
	}
	switch v.Kind() {
	case reflect.Ptr:
		if !v.IsNil() {
			n += scramble(v.Elem(), depth+1)
		}
	case reflect.Interface:
		if !v.IsNil() {
			el := v.Elem()
			switch el.Kind() {
			case reflect.Map, reflect.Slice, reflect.Ptr:
				n += scramble(el, depth+1)
			default:
				if v.CanSet() {
					v.Set(reflect.ValueOf("scrambled"))
					n++
				}
			}
		}
	case reflect.Struct:
		if v.Type() == reflect.TypeOf(time.Time{}) {
			if v.CanSet() {
				v.Set(reflect.ValueOf(v.Interface().(time.Time).Add(time.Hour)))
				n++
			}
			return n
		}
		if v.Type() == reflect.TypeOf(sod.Item{}) {
			return 0
		}
		for i := 0; i < v.NumField(); i++ {
			if v.Type().Field(i).IsExported() {
				n += scramble(v.Field(i), depth+1)
			}
		}
	case reflect.Slice:
		for i := 0; i < v.Len(); i++ {
			n += scramble(v.Index(i), depth+1)
		}
	case reflect.Array:
		for i := 0; i < v.Len(); i++ {
			n += scramble(v.Index(i), depth+1)
		}
	case reflect.Map:
		for _, k := range v.MapKeys() {
			el := v.MapIndex(k)
			// map values are not addressable: mutate what they point to, then replace
			switch el.Kind() {
			case reflect.Ptr, reflect.Slice, reflect.Map, reflect.Interface:
				n += scramble(el, depth+1)
			}
			nv := reflect.New(el.Type()).Elem()
			nv.Set(el)
			n += scramble(nv, depth+1)
			v.SetMapIndex(k, nv)
		}
	case reflect.String:
		if v.CanSet() {
			v.SetString(v.String() + "!")
			n++
		}
	case reflect.Int, reflect.Int8, reflect.Int16, reflect.Int32, reflect.Int64:
		if v.CanSet() {
			v.SetInt(v.Int() ^ 1)
			n++
		}
	case reflect.Uint, reflect.Uint8, reflect.Uint16, reflect.Uint32, reflect.Uint64:
		if v.CanSet() {
			v.SetUint(v.Uint() ^ 1)
			n++
		}
	case reflect.Float32, reflect.Float64:
		if v.CanSet() {
			v.SetFloat(v.Float() + 1)
			n++
		}
	case reflect.Bool:
		if v.CanSet() {
			v.SetBool(!v.Bool())
			n++
		}
	}
	return n
}

// addresses collects the addresses of all mutable memory reachable from v.
func addresses(v reflect.Value, out map[uintptr]string, path string, depth int) {
	if depth > 8 {
		return
	}
	switch v.Kind() {
	case reflect.Ptr:
		if !v.IsNil() {
			out[v.Pointer()] = path
			addresses(v.Elem(), out, path+"*", depth+1)
		}
	case reflect.Interface:
		if !v.IsNil() {
			addresses(v.Elem(), out, path, depth+1)
		}
	case reflect.Struct:
		if v.Type() == reflect.TypeOf(time.Time{}) || v.Type() == reflect.TypeOf(sod.Item{}) {
			return
		}
		for i := 0; i < v.NumField(); i++ {
			if v.Type().Field(i).IsExported() {
				addresses(v.Field(i), out, path+"."+v.Type().Field(i).Name, depth+1)
			}
		}
	case reflect.Slice:
		// (a slice without capacity points to a placeholder that all such slices share)
		if v.Cap() > 0 {
			out[v.Pointer()] = path + "[]"
		}
		for i := 0; i < v.Len(); i++ {
			addresses(v.Index(i), out, fmt.Sprintf("%s[%d]", path, i), depth+1)
		}
	case reflect.Array:
		for i := 0; i < v.Len(); i++ {
			addresses(v.Index(i), out, fmt.Sprintf("%s[%d]", path, i), depth+1)
		}
	case reflect.Map:
		if !v.IsNil() {
			out[v.Pointer()] = path + "{}"
		}
		for _, k := range v.MapKeys() {
			addresses(v.MapIndex(k), out, fmt.Sprintf("%s{%v}", path, k), depth+1)
		}
	}
}

// respare gives every empty, non-nil slice reachable from v spare capacity, the way
// make([]T, 0, n) or s[:0] do in caller code (same JSON, other memory layout).
func respare(v reflect.Value, depth int) int {
	n := 0
	if depth > 8 {
		return 0
	}
	switch v.Kind() {
	case reflect.Ptr:
		if !v.IsNil() {
			n += respare(v.Elem(), depth+1)
		}
	case reflect.Struct:
		if v.Type() == reflect.TypeOf(time.Time{}) || v.Type() == reflect.TypeOf(sod.Item{}) {
			return 0
		}
		for i := 0; i < v.NumField(); i++ {
			if v.Type().Field(i).IsExported() {
				n += respare(v.Field(i), depth+1)
			}
		}
	case reflect.Slice:
		if !v.IsNil() && v.Len() == 0 && v.CanSet() {
			v.Set(reflect.MakeSlice(v.Type(), 0, 4))
			n++
		}
		for i := 0; i < v.Len(); i++ {
			n += respare(v.Index(i), depth+1)
		}
	}
	return n
}

func shared(a, b sod.Object) string {
	ma, mb := map[uintptr]string{}, map[uintptr]string{}
	addresses(reflect.ValueOf(a), ma, "", 0)
	addresses(reflect.ValueOf(b), mb, "", 0)
	// the top-level pointers themselves
	for addr, p := range ma {
		if q, ok := mb[addr]; ok {
			return p + " / " + q
		}
	}
	return ""
}

func depthOf(d *Doc) int {
	n := 0
	if d.Pt != nil || d.PI != nil {
		n = 1
	}
	if d.PPI != nil || len(d.SlP) > 0 || len(d.M) > 0 || len(d.MI) > 0 {
		n = 2
	}
	if len(d.MS) > 0 {
		n = 3
	}
	if m, ok := d.Any.(map[string]interface{}); ok && len(m) > 0 {
		n = 3
	}
	if s, ok := d.Any.([]interface{}); ok && len(s) > 0 {
		n = 3
	}
	return n
}

// isolationSweep: every read hands out private memory.
func isolationSweep(e *Env, where string) {
	for _, id := range e.m.live {
		want := canon(e.m.objs[id])
		get := func() sod.Object {
			d := &Doc{}
			d.Initialize(id)
			o, err := e.db.Get(d)
			if err != nil {
				e.failf("%s: Get(%s): %v", where, e.tag(id), err)
			}
			return o
		}
		o1, o2 := get(), get()
		if s := shared(o1, o2); s != "" {
			e.failf("%s: two reads of %s share memory at %s", where, e.tag(id), s)
		}
		if depthOf(e.m.objs[id]) >= 2 {
			e.flag("isolation-deep-shape")
		}
		if n := scramble(reflect.ValueOf(o1), 0); n > 0 {
			e.flag("isolation-mutated-returned-object")
		}
		o3 := get()
		if canon(o3) != want {
			e.failf("%s: after mutating an object returned by Get, a fresh read of %s returns %s, stored was %s", where, e.tag(id), canon(o3), want)
		}
		if s := shared(o1, o3); s != "" {
			e.failf("%s: a fresh read of %s shares memory with an earlier read at %s", where, e.tag(id), s)
		}
	}
	// All and Search hand out private copies as well
	a1, err := e.db.All(&Doc{})
	if err != nil {
		e.failf("%s: All: %v", where, err)
	}
	for _, o := range a1 {
		scramble(reflect.ValueOf(o), 0)
	}
	held := e.db.Search(&Doc{}, "I64", "!=", int64(-123456789))
	s1, err := held.Collect()
	if err != nil {
		e.failf("%s: Search: %v", where, err)
	}
	// the same search value collected again hands out other memory
	if s1b, err := held.Collect(); err == nil {
		for i := range s1b {
			for j := range s1 {
				if sh := shared(s1b[i], s1[j]); sh != "" {
					e.failf("%s: one search value collected twice: the results share memory at %s", where, sh)
				}
			}
		}
	}
	for _, o := range s1 {
		scramble(reflect.ValueOf(o), 0)
	}
	a2, err := e.db.All(&Doc{})
	if err != nil {
		e.failf("%s: All: %v", where, err)
	}
	for _, o := range a2 {
		id := o.UUID()
		if m, ok := e.m.objs[id]; !ok || canon(o) != canon(m) {
			e.failf("%s: after mutating objects returned by All/Search, All returns %s for %s, stored was %s", where, canon(o), e.tag(id), canon(m))
		}
		for _, p := range a1 {
			if s := shared(o, p); s != "" {
				e.failf("%s: objects returned by two All calls share memory at %s", where, s)
			}
		}
	}
}

var propC14 = &modelProp{
	id: "C14",
	profile: func() *Profile {
		return &Profile{
			Property: "C14", MaxOps: pick(6, 14),
			W:          map[string]int{"insert": 8, "update": 4, "resave": 1, "delete": 1, "many": 2, "reopen": 1, "query": 1},
			AllowCache: true, AllowCompress: true, AllowAsync: true,
			MaxIndexed: 2, MaxUnique: 1, CasePaths: 1,
			TinyBias: 50, BigBias: 10, HookBias: 5, RichShape: 90, MaxLeaves: 1,
		}
	},
	opts: RunOpts{SweepLevel: 1, SweepEveryOp: true, Control: true,
		AfterOp: func(e *Env, i int, op *Op) { isolationSweep(e, fmt.Sprintf("after op %d (%s)", i, op.Op)) }},
	nt: func(e *Env) bool {
		return e.flags["isolation-deep-shape"] > 0 && e.flags["isolation-mutated-caller-object"] > 0
	},
	rule: "documents with generated shapes (nil / empty / non-empty slices and maps, pointer chains *T and **T, slices of pointers incl. nil elements, maps of slices of pointers, interface{} holding nil/scalars/maps/slices, empty slices with spare capacity, one pointer target referenced from several places, arrays of scalars, nested structs by value and pointer), cache and async on and off. After every accepted InsertOrUpdate the caller's object is mutated through reflection at every reachable location; after every op each stored object is read twice (address sets of all reachable pointers/slices/maps must be disjoint), the first copy is mutated everywhere, a third read must equal the canonical JSON recorded at store time and share nothing; the same for objects returned by All and Search.Collect, also when they are the very first reads of a freshly opened (cold) handle; all read paths are compared with the model after every op; with the cache on a second handle reads every object from its file and the cached read must equal it. TestC14Deep repeats the store/mutate/read protocol on a second type whose containers are nested directly inside containers ([][]int, []map, map of maps, map of pointers incl. nil entries, *[]T, []*[]T, [][][]string, zero values held by interface{} slots, arrays of pointers / slices / maps / structs with pointers) with cache and async on and off, and finally reads every object through a cold second handle (what reached the file must be what was stored, not what the caller turned it into). TestC14Twins stores reference-free and reference-holding struct types that share one type name (props.Twin0..2, function-local declarations, one database each) in a generated order and runs the same protocol on each: nothing the library remembers per type name may leak from one type to the other. Non-trivial: a stored shape with a non-nil pointer or non-empty container at depth >= 2 and >= 1 mutated location in a caller object. Distinct by program hash.",
	after: func(e *Env) {
		// cached read == round trip through the file (second handle, cold cache)
		if e.cfg.Async != nil {
			if err := e.db.FlushAllAndCommit(&Doc{}); err != nil {
				e.failf("FlushAllAndCommit: %v", err)
			}
		}
		db2 := sod.Open(e.root)
		defer db2.Close()
		for _, id := range e.m.live {
			d := &Doc{}
			d.Initialize(id)
			cached, err := e.db.Get(d)
			if err != nil {
				e.failf("Get: %v", err)
			}
			d2 := &Doc{}
			d2.Initialize(id)
			cold, err := db2.Get(d2)
			if err != nil {
				e.failf("Get on a second handle: %v", err)
			}
			if canon(cached) != canon(cold) {
				e.failf("cached read of %s is %s, a round trip through the file gives %s", e.tag(id), canon(cached), canon(cold))
			}
			if e.cfg.MustCache() {
				e.flag("cached-vs-file-compared")
			}
		}
	},
}

func init() {
	propC14.setup = func(e *Env) {
		// the very first reads of a cold handle go through All / a scanning search; what they
		// return is mutated at once (the checks that follow read everything again)
		e.afterOpen = func() {
			if len(e.m.live) == 0 {
				return
			}
			var objs []sod.Object
			var err error
			if e.step%2 == 0 {
				objs, err = e.db.All(&Doc{})
			} else {
				objs, err = e.db.Search(&Doc{}, "I16", "!=", int16(-12345)).Collect()
			}
			if err != nil {
				e.failf("first read after reopen: %v", err)
			}
			n := 0
			for _, o := range objs {
				n += scramble(reflect.ValueOf(o), 0)
			}
			if n > 0 {
				e.flag("isolation-mutated-first-read-of-cold-handle")
			}
		}
		e.prepArg = func(arg *Doc) {
			if respare(reflect.ValueOf(arg), 0) > 0 {
				e.flag("empty-slice-with-spare-capacity-stored")
			}
			// an interface{} slot may hold a POINTER to what it would otherwise hold (same JSON)
			if m, ok := arg.Any.(map[string]interface{}); ok && len(m)%2 == 1 {
				arg.Any = &m
				e.flag("interface-slot-holds-a-pointer")
			} else if l, ok := arg.Any.([]interface{}); ok && len(l)%2 == 1 {
				arg.Any = &l
				e.flag("interface-slot-holds-a-pointer")
			}
			// equal pointer targets become ONE target referenced several times (same JSON)
			var first *Inner
			for i, p := range arg.SlP {
				if p == nil {
					continue
				}
				if first == nil {
					first = p
				} else if *p == *first {
					arg.SlP[i] = first
					e.flag("one-pointer-target-referenced-twice")
				}
			}
			// (Pt is left alone: a case constraint on Pt.S rewrites the target in place, which would
			// then legitimately show through every alias - no longer the same JSON)
		}
		// mutate the caller's object right after it was stored
		e.onStored = func(arg *Doc) {
			if n := scramble(reflect.ValueOf(arg), 0); n > 0 {
				e.flag("isolation-mutated-caller-object")
			}
		}
	}
	propC14.register()
}

func TestC14(t *testing.T) { propC14.test(t) }

// ---------------------------------------------------------------- C12

func genCfgTwin(g *G, c Config) Config {
	out := c
	out.Cons = map[string]Cons{}
	for k, v := range c.Cons {
		out.Cons[k] = v
	}
	out.Cache = g.pct("cache2") < 50
	out.Compress = g.pct("compress2") < 50
	out.Lower = g.pct("lower2") < 40
	out.Async = nil
	if g.pct("async2") < 40 {
		out.Async = &AsyncCfg{Threshold: 1 + g.uni(8, "thr2"), TimeoutMs: 100 * (1 + g.uni(10, "to2"))}
	}
	out.Ext = pickU(g, []string{".json", ".obj", ".j", ".data.v1", ""}, "ext2")
	// flip the index of some non-unique paths (constrained ones and the usual query paths)
	cands := []string{"S", "I64", "In.N", "Pt.S", "Emb.ES", "U8", "F64", "T", "Pt.T"}
	for k, v := range c.Cons {
		if !v.Unique && k != "Any" {
			cands = append(cands, k)
		}
	}
	sortStrings(cands)
	for _, k := range cands {
		v := out.Cons[k]
		if !v.Unique && g.pct("flip") < 50 {
			v.Index = !v.Index
			out.Cons[k] = v
		}
	}
	return out
}

func TestC12(t *testing.T) {
	st := statsFor("C12")
	st.Rule = "one generated program (writes, deletes, batches, reopen, Exist/Get/Count/All after every op, well-formed queries and queries spoilt on purpose: mistyped probe, invalid pattern, unknown operator, unknown field, on empty and non-empty collections) is run under two configurations drawn independently in cache, compression, async writes, lower-case names, extension and index assignment of non-unique paths (unique and case constraints are semantics and stay equal). Oracle: the two normalised traces (outcome class of every call, result multisets by creation ordinal, counts, Exist answers, presence and class of search errors, Control once nothing is pending) are equal line by line; both runs are also compared with the model. TestC12Mass runs one program on 8300-9500 small objects (caller uuids, batches of 200-2000, some updates and deletes, then Count, All, Get/Exist of the oldest, newest and a spread, searches, AssignIndex, Control after a flush) under two configurations differing in cache / async (thresholds up to 100000, timeouts up to an hour, so that thousands of writes stay pending) / compression: equal traces, equal to a map model - bounds, growth and eviction inside the library must not show. Non-trivial: the configurations differ in cache, async or the index of a queried path, and the program queries after a write. Distinct by program hash."
	st.Assumptions = baseAssumptions()
	prof := &Profile{
		Property: "C12", MaxOps: pick(12, 28),
		W:          map[string]int{"insert": 8, "update": 4, "delete": 3, "resurrect": 1, "many": 2, "bulk": 1, "query": 10, "searchDelete": 1, "reopen": 2, "deleteAll": 1, "upsertUUID": 1},
		AllowCache: true, AllowCompress: true, AllowAsync: true, AllowLower: true,
		MaxIndexed: 4, MaxUnique: 2, CasePaths: 1,
		TinyBias: 55, BigBias: 12, HookBias: 8, RichShape: 10, MaxLeaves: 2, BadQueryPct: 30, NaNProbePct: 6,
	}
	rapid.Check(t, func(rt *rapid.T) {
		g := NewG(rt, prof)
		prog := g.Program()
		cfg2 := genCfgTwin(g, prog.Cfg)
		prog.Aux = map[string]interface{}{"cfg2": cfg2}
		guard(rt, prog, func() { caseC12(rt, prog) })
	})
}

func cfg2Of(prog *Program) Config {
	var c Config
	reJSON(prog.Aux["cfg2"], &c)
	return c
}

func caseC12(t TB, prog *Program) {
	st := statsFor("C12")
	opts := RunOpts{SweepLevel: 1, SweepEveryOp: true, Control: true, Trace: true,
		FocusPaths: []string{"S", "I64", "Pt.S"}}
	cfg2 := cfg2Of(prog)
	// both runs sweep the same paths: the union of the indexed paths of both
	for _, c := range []Config{prog.Cfg, cfg2} {
		for _, p := range c.IndexedPaths() {
			opts.FocusPaths = append(opts.FocusPaths, p.Path)
		}
	}
	// LowercaseNames is a package global: the two runs must not overlap
	anyAsync := prog.Cfg.Async != nil || cfg2.Async != nil
	finish := func(e *Env) {
		// integrity is only comparable once no write is pending
		if e.cfg.Async != nil {
			if err := e.db.FlushAllAndCommit(&Doc{}); err != nil {
				e.failf("FlushAllAndCommit: %v", err)
			}
		}
		if err := e.db.Control(); err != nil {
			e.failf("Control once no write is pending (config %s): %v", canon(e.cfg), err)
		}
		e.Teardown()
	}
	e1 := NewEnv(t, prog, opts)
	func() {
		defer func() {
			if r := recover(); r != nil {
				e1.Teardown()
				panic(r)
			}
		}()
		e1.Run()
		finish(e1)
	}()
	p2 := *prog
	p2.Cfg = cfg2
	e2 := NewEnv(t, &p2, opts)
	e2.prog = prog // failures name the complete case
	func() {
		defer func() {
			if r := recover(); r != nil {
				e2.Teardown()
				panic(r)
			}
		}()
		e2.Run()
		finish(e2)
	}()
	t1, t2 := stripIndexOnly(e1.trace, anyAsync), stripIndexOnly(e2.trace, anyAsync)
	if len(t1) != len(t2) {
		e1.failf("traces of the two configurations have different lengths: %d vs %d", len(t1), len(t2))
	}
	for i := range t1 {
		if t1[i] != t2[i] {
			e1.failf("configurations A=%s and B=%s diverge at trace line %d:\n%s", canon(prog.Cfg), canon(cfg2), i, lineDiff(t1[i], t2[i]))
		}
	}
	differ := prog.Cfg.Cache != cfg2.Cache || (prog.Cfg.Async == nil) != (cfg2.Async == nil)
	for _, op := range prog.Ops {
		if op.Q != nil {
			for _, l := range op.Q.Leaves {
				if prog.Cfg.Indexed(l.Path) != cfg2.Indexed(l.Path) {
					differ = true
					e1.flag("queried-path-indexed-in-one-config-only")
				}
			}
		}
	}
	if prog.Cfg.Cache != cfg2.Cache {
		e1.flag("cache-differs")
	}
	if (prog.Cfg.Async == nil) != (cfg2.Async == nil) {
		e1.flag("async-differs")
	}
	if prog.Cfg.Compress != cfg2.Compress {
		e1.flag("compress-differs")
	}
	nt := differ && (e1.flags["query-partial-result"] > 0 || e1.flags["query-unevaluable"] > 0 || e1.flags["sweep-query-partial-result"] > 0)
	cfgFlags(e1)
	st.Case(prog.Hash(), nt, e1.flags, func() interface{} { return prog })
	st.Add("trace_lines_compared", len(t1))
}

// stripIndexOnly removes the parts of an observation that exist only when a
// path is indexed (AssignIndex per indexed path, result order).
func lineDiff(a, b string) string {
	ja, jb := strings.Index(a, ": {"), strings.Index(b, ": {")
	var ma, mb map[string]string
	if ja >= 0 && jb >= 0 && reJSONString(a[ja+2:], &ma) == nil && reJSONString(b[jb+2:], &mb) == nil {
		d := diffObs(Obs(ma), Obs(mb))
		if len(d) > 5 {
			d = d[:5]
		}
		return a[:ja] + " (got=A, want=B):\n" + strings.Join(d, "\n")
	}
	return "  A: " + clip(a) + "\n  B: " + clip(b)
}

func stripIndexOnly(tr []string, dropControl bool) []string {
	out := make([]string, len(tr))
	for i, l := range tr {
		if j := strings.Index(l, ": {"); j >= 0 && strings.HasSuffix(l, "}") {
			var m map[string]string
			if reJSONString(l[j+2:], &m) == nil {
				for k := range m {
					if strings.HasPrefix(k, "index:") || strings.HasPrefix(k, "qord:") || strings.HasPrefix(k, "qseq:") || (dropControl && k == "control") {
						delete(m, k)
					}
				}
				l = l[:j+2] + canon(m)
			}
		}
		out[i] = l
	}
	return out
}

func clip(s string) string {
	if len(s) > 1500 {
		return s[:1500] + "..."
	}
	return s
}

func init() {
	replayers["C12"] = func(t *testing.T, prog *Program) { guardT(t, prog, func() { caseC12(t, prog) }) }
}
