package props

import (
	"encoding/json"
	"fmt"
	"hash/fnv"
	"time"

	"github.com/0xrawsec/sod"
)

// ---------------------------------------------------------------- configuration

type Cons struct {
	Index  bool `json:"index,omitempty"`
	Unique bool `json:"unique,omitempty"`
	Upper  bool `json:"upper,omitempty"`
	Lower  bool `json:"lower,omitempty"`
}

type AsyncCfg struct {
	Threshold int `json:"threshold"`
	TimeoutMs int `json:"timeout_ms"`
}

type Config struct {
	Cache    bool            `json:"cache,omitempty"`
	Compress bool            `json:"compress,omitempty"`
	Lower    bool            `json:"lowercase_names,omitempty"`
	Async    *AsyncCfg       `json:"async,omitempty"`
	Ext      string          `json:"ext"`
	Cons     map[string]Cons `json:"cons,omitempty"`
}

func (c Config) Schema() sod.Schema {
	fields := sod.FieldDescriptors(&Doc{})
	for p, k := range c.Cons {
		if err := fields.Constraint(p, sod.Constraints{Index: k.Index, Unique: k.Unique, Upper: k.Upper, Lower: k.Lower}); err != nil {
			panic(err)
		}
	}
	s := sod.NewCustomSchema(fields, c.Ext)
	s.Compress = c.Compress
	s.Cache = c.Cache
	if c.Async != nil {
		s.Asynchrone(c.Async.Threshold, time.Duration(c.Async.TimeoutMs)*time.Millisecond)
	}
	return s
}

func (c Config) Indexed(path string) bool {
	k := c.Cons[path]
	return k.Index || k.Unique
}

func (c Config) MustCache() bool { return c.Cache || c.Async != nil }

func (c Config) UniquePaths() (out []PathInfo) {
	for _, p := range castable {
		if c.Cons[p.Path].Unique {
			out = append(out, p)
		}
	}
	return
}

func (c Config) IndexedPaths() (out []PathInfo) {
	for _, p := range castable {
		if c.Indexed(p.Path) {
			out = append(out, p)
		}
	}
	return
}

// ---------------------------------------------------------------- operations

type FieldSet struct {
	Path string `json:"path"`
	V    Val    `json:"v"`
}

type Leaf struct {
	Conn string `json:"conn,omitempty"` // "", "and", "or"
	Path string `json:"path"`
	Op   string `json:"op"`
	V    Val    `json:"v"`
	// when set, the connective is applied through Search.Operation with this operator string
	Via string `json:"via,omitempty"`
}

type Query struct {
	Leaves  []Leaf  `json:"leaves"`
	Limit   *uint64 `json:"limit,omitempty"`
	Reverse bool    `json:"reverse,omitempty"`
	// collect | assign | one | assignone | len | expects | expectszn | assignunique
	Consumer string `json:"consumer,omitempty"`
	// expects / expectszn: the expected count is the number of matches plus this
	Expect int `json:"expect,omitempty"`
}

func (q Query) String() string {
	s := ""
	for _, l := range q.Leaves {
		if l.Conn != "" {
			s += " " + l.Conn + " "
		}
		s += fmt.Sprintf("%s %s %s", l.Path, l.Op, l.V)
	}
	if q.Limit != nil {
		s += fmt.Sprintf(" limit %d", *q.Limit)
	}
	if q.Reverse {
		s += " reverse"
	}
	return s
}

type BatchItem struct {
	// new | newuuid | upd | same | copy | other | otheruuid
	Kind string     `json:"kind"`
	D    *Doc       `json:"d,omitempty"`
	Seed uint64     `json:"seed,omitempty"`
	Ref  int        `json:"ref,omitempty"`
	Prev int        `json:"prev,omitempty"`
	Sets []FieldSet `json:"sets,omitempty"`
}

type Op struct {
	Op    string      `json:"op"`
	D     *Doc        `json:"d,omitempty"`
	Seed  uint64      `json:"seed,omitempty"`
	Ref   int         `json:"ref,omitempty"`
	Sets  []FieldSet  `json:"sets,omitempty"`
	Items []BatchItem `json:"items,omitempty"`
	CSize int         `json:"csize,omitempty"`
	Q     *Query      `json:"q,omitempty"`
	Ms    int         `json:"ms,omitempty"`
	Cfg   *Config     `json:"cfg,omitempty"`
	Sub   []Op        `json:"sub,omitempty"`
	// free-form per-property payload
	Aux map[string]interface{} `json:"aux,omitempty"`
}

type Program struct {
	Property string `json:"property"`
	Cfg      Config `json:"cfg"`
	Ops      []Op   `json:"ops"`
	// free-form per-property payload (fault position, cut, mutation script…)
	Aux map[string]interface{} `json:"aux,omitempty"`
}

func (p *Program) JSON() []byte {
	b, err := json.Marshal(p)
	if err != nil {
		panic(err)
	}
	return b
}

func (p *Program) Hash() uint64 {
	h := fnv.New64a()
	h.Write(p.JSON())
	return h.Sum64()
}

// seeded, well-formed uuid chosen by the caller
// (well formed = 8-4-4-4-12 hex digits; callers are free to use any version,
// variant and letter case: the library matches case-insensitively and never
// inspects version bits)
func seedUUID(seed uint64) string {
	hi, lo := uint32(seed>>32), seed&0xffffffffffff
	switch seed % 4 {
	case 1: // version 1 layout, RFC variant
		return fmt.Sprintf("%08x-5eed-11ee-9000-%012x", hi, lo)
	case 2: // upper-case hex letters (Windows style GUID)
		return fmt.Sprintf("%08X-5EED-4ABC-8DEF-%012X", hi, lo|0xabcdef000000)
	case 3: // nil-like / non-RFC variant
		return fmt.Sprintf("%08x-0000-0000-0000-%012x", hi, lo)
	}
	return fmt.Sprintf("%08x-5eed-4000-8000-%012x", hi, lo)
}
