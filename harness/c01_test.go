package props

import (
	"testing"

	"pgregory.net/rapid"
)

// modelProp describes a property decided by stepping the reference model.
type modelProp struct {
	id      string
	profile func() *Profile
	opts    RunOpts
	nt      func(e *Env) bool
	rule    string
	// optional extra body run inside the case after the program
	after func(e *Env)
	// optional hook run right after the Env was created
	setup func(e *Env)
	// optional metamorphic twin of a program
	twin func(p *Program) *Program
}

func (mp *modelProp) runCase(t TB, prog *Program) {
	st := statsFor(mp.id)
	opts := mp.opts
	if prog.Aux["direct"] == true {
		// big single-index cases (TestC02Direct): explicit queries only
		opts.SweepLevel, opts.SweepEveryOp = 0, false
	}
	e := NewEnv(t, prog, opts)
	defer e.Teardown()
	if mp.setup != nil {
		mp.setup(e)
	}
	e.Run()
	if mp.after != nil {
		mp.after(e)
	}
	cfgFlags(e)
	if mp.twin != nil && prog.Aux["direct"] != true {
		// metamorphic twin: same ops, other configuration; checked against the model too
		p2 := mp.twin(prog)
		e2 := NewEnv(t, p2, mp.opts)
		defer e2.Teardown()
		e2.Run()
		e.flag("twin-run")
	}
	st.Case(prog.Hash(), mp.nt(e), e.flags, func() interface{} { return prog })
	st.Add("sweep_queries", e.sweepQueries_)
	st.Add("sweep_queries_partial_result", e.sweepPartial)
	st.Add("ops_executed", len(prog.Ops))
}

func (mp *modelProp) test(t *testing.T) {
	st := statsFor(mp.id)
	st.Rule = mp.rule
	st.Assumptions = baseAssumptions()
	prof := mp.profile()
	rapid.Check(t, func(rt *rapid.T) {
		prog := NewG(rt, prof).Program()
		guard(rt, prog, func() { mp.runCase(rt, prog) })
	})
}

func (mp *modelProp) register() {
	replayers[mp.id] = func(t *testing.T, prog *Program) {
		guardT(t, prog, func() { mp.runCase(t, prog) })
	}
}

// crudWeights: the full program alphabet.
func crudWeights() map[string]int {
	return map[string]int{
		"insert": 8, "upsertUUID": 2, "update": 6, "resave": 1, "resurrect": 2,
		"delete": 4, "deleteAbsent": 1, "deleteAll": 1, "searchDelete": 2,
		"many": 2, "bulk": 2, "query": 4, "reopen": 3, "abandonReopen": 1, "createAgain": 1,
		// a search held across writes and then collected or deleted through (C20's op): the
		// delete consumer must remove every member that is still stored
		"snapshot": 2,
	}
}

var propC01 = &modelProp{
	id: "C01",
	profile: func() *Profile {
		return &Profile{
			Property: "C01", WordShiftPct: 10, MaxOps: pick(12, 30), W: crudWeights(),
			AllowAsync: true, AllowCache: true, AllowCompress: true, AllowLower: true,
			MaxIndexed: 4, MaxUnique: 2, CasePaths: 1,
			TinyBias: 45, BigBias: 15, HookBias: 15, RichShape: 35, MaxLeaves: 2,
		}
	},
	opts: RunOpts{SweepLevel: 1, SweepEveryOp: true, Walk: true, Control: true},
	nt: func(e *Env) bool {
		return (e.flags["accepted-update"] > 0 || e.flags["delete"] > 0) && (e.flags["absent-lookup-of-deleted"] > 0 || e.flags["reopen"] > 0 || e.flags["abandon-reopen"] > 0)
	},
	rule: "rapid-generated programs over the full op alphabet (insert, upsert with caller uuid, update, resave, resurrect, delete, delete-absent, DeleteAll, search-delete, Many, Bulk, queries, Close+reopen, abandon+reopen, Create again, a search held across writes and then collected or deleted through) on one collection under generated configurations (cache, compression, async, lower-case names, extension, constraint subset); the reference model is stepped with every op and every read path (Count, All, AssignAll, Get, GetByUUID, Exist for every uuid ever seen, absent ids twice in a row, AssignIndex, search sweep over indexed paths, Control, directory walk in sync mode) is compared after every op. The lookups of the observation sweep reuse their receivers (each carries data and the uuid of the previous lookup). TestC01Sparse: objects of a type with omitempty / renamed members and an omitted nil pointer struct; Get and GetByUUID with receivers that carry other data return exactly the stored values. Non-trivial: >=1 accepted update or delete AND (>=1 lookup of a deleted id or a reopen). Distinct by program hash.",
}

func init() { propC01.register() }

// C01 — reads reflect exactly the accepted writes.
func TestC01(t *testing.T) { propC01.test(t) }

func cfgFlags(e *Env) {
	if e.cfg.Cache {
		e.flag("cfg-cache")
	}
	if e.cfg.Compress {
		e.flag("cfg-compress")
	}
	if e.cfg.Async != nil {
		e.flag("cfg-async")
	}
	if e.cfg.Lower {
		e.flag("cfg-lowercase-names")
	}
	if e.cfg.Ext != ".json" {
		e.flag("cfg-custom-ext")
	}
	if len(e.cfg.UniquePaths()) > 0 {
		e.flag("cfg-unique")
	}
	if len(e.cfg.IndexedPaths()) > 0 {
		e.flag("cfg-indexed")
	}
}

func baseAssumptions() []string {
	return []string{
		"strings are valid UTF-8 (the storage format is JSON)",
		"times lie in 1760..2261 (documented UnixNano range, and above the zero time's wrapped UnixNano so that chronological and index order agree) or are the zero time",
		"floats exclude NaN and +-Inf (JSON cannot encode them) except where a check says otherwise",
		"numbers inside interface{} fields are within +-2^53 (JSON decoding of interface{} yields float64)",
		"object equality is equality of canonical JSON (unexported fields excluded, as documented in object.go)",
		"order among equal keys, All/iteration order and Or order are unspecified: compared as multisets",
	}
}
