package props

import (
	"encoding/json"
	"errors"
	"fmt"
	"io/fs"
	"math"
	"os"
	"path/filepath"
	"reflect"
	"sort"
	"strings"
	"sync/atomic"
	"time"

	"github.com/0xrawsec/sod"
)

// ---------------------------------------------------------------- plumbing

// TB is what the engine needs from rapid.T / testing.T.
type TB interface {
	Fatalf(format string, args ...interface{})
	Logf(format string, args ...interface{})
}

type RunOpts struct {
	// how much searching the automatic sweep does: 0 none, 1 indexed paths +
	// queried paths with few probes, 2 more probes and more paths
	SweepLevel int
	// sweep after every op (else only at reopen boundaries and at the end)
	SweepEveryOp bool
	// compare directory contents with the model at quiescent points (sync mode)
	Walk bool
	// differential observation across reopen (C04)
	DiffReopen bool
	// call Control() in sweeps
	Control bool
	// extra paths to include in sweeps
	FocusPaths []string
	// hook invoked after each op (property specific checks)
	AfterOp func(e *Env, i int, op *Op)
	// hook invoked before each op
	BeforeOp func(e *Env, i int, op *Op)
	// hook invoked with the fresh root before the database is opened
	PreOpen func(root string)
	// virtual clock available (inst build): tick ops advance it
	Virtual bool
	// record observations in the trace (C12)
	Trace bool
	// no observation checks while running (golden generation on the pinned release)
	NoObs bool
}

type Env struct {
	t    TB
	prog *Program
	cfg  Config
	root string
	db   *sod.DB
	m    *Model
	opts RunOpts

	ord     map[string]int // uuid -> creation ordinal (trace normalisation)
	nextOrd int
	allIDs  []string // every uuid ever seen, in ordinal order
	absent  []string // fresh uuids never stored

	// per-case classification flags for evidence
	flags map[string]int
	// abandoned handles (closed at teardown)
	abandoned []*sod.DB
	// pending async writes exist (disk may lag)
	dirty bool
	// normalised trace of outcomes (C12 differential)
	trace []string
	// called with the caller's object after an accepted InsertOrUpdate (C14)
	onStored      func(arg *Doc)
	afterOpen     func()         // first thing done with a freshly opened handle (reopen ops)
	holdingSearch bool           // a snapshot op is executing its writes
	argOverride   *Doc           // one-shot: the object handed to InsertOrUpdate instead of a fresh copy
	prepArg       func(arg *Doc) // last touch on the caller's object before it is handed to the database
	// evidence classification state
	released map[string]map[string]bool
	reopened bool
	closed   bool
	// member values per uuid of the last accepted batch
	lastVersions map[string][]string
	curMdocs     []*Doc
	// number of automatic sweep queries evaluated / with a non-empty non-total result
	sweepQueries_, sweepPartial int
	// last search delete etc. for hooks
	step int
}

func classify(err error) string {
	switch {
	case err == nil:
		return OK
	case sod.IsUnique(err):
		return EUnique
	case errors.Is(err, sod.ErrInvalidObject):
		return EInvalid
	case errors.Is(err, sod.ErrCasting):
		return ECasting
	case errors.Is(err, sod.ErrUnkownField):
		return EField
	case errors.Is(err, sod.ErrUnkownSearchOperator):
		return EOperator
	case errors.Is(err, sod.ErrNoObjectFound):
		return ENoObject
	case errors.Is(err, sod.ErrWrongObjectType):
		return EType
	case errors.Is(err, fs.ErrNotExist):
		return ENotExist
	case errors.Is(err, sod.ErrIndexCorrupted):
		return "corrupted"
	case errors.Is(err, sod.ErrStructureChanged):
		return "structchanged"
	case errors.Is(err, sod.ErrFieldDescModif):
		return "fielddescmodif"
	case errors.Is(err, sod.ErrExtensionMismatch):
		return "extmismatch"
	case errors.Is(err, sod.ErrUnknownKeyType):
		return "unknownkeytype"
	}
	return EOther
}

var workDir = func() string {
	if d := os.Getenv("VERIF_WORK"); d != "" {
		return d
	}
	if st, err := os.Stat("/dev/shm"); err == nil && st.IsDir() {
		return "/dev/shm"
	}
	return os.TempDir()
}()

var rootSeq int32

func newRoot() string {
	// every other root carries characters that are special in glob patterns and regular
	// expressions: a path is data, whatever it contains
	pat := "case-"
	if atomic.AddInt32(&rootSeq, 1)%2 == 0 {
		pat = "case[1-2]+(x)-"
	}
	d, err := os.MkdirTemp(workDir, pat)
	if err != nil {
		panic(err)
	}
	return d
}

func (e *Env) flag(name string) { e.flags[name]++ }

func (e *Env) tracef(format string, args ...interface{}) {
	e.trace = append(e.trace, fmt.Sprintf(format, args...))
}

func (e *Env) failf(format string, args ...interface{}) {
	msg := fmt.Sprintf(format, args...)
	recordFailure(e.prog, msg)
	e.t.Fatalf("%s\nprogram: %s", msg, e.prog.JSON())
}

func (e *Env) note(id string) {
	if _, ok := e.ord[id]; !ok {
		e.ord[id] = e.nextOrd
		e.nextOrd++
		e.allIDs = append(e.allIDs, id)
	}
}

func (e *Env) tag(id string) string {
	if o, ok := e.ord[id]; ok {
		return fmt.Sprintf("#%d", o)
	}
	return "#?" + id
}

// NewEnv opens a database in a fresh root and creates the Doc collection.
func NewEnv(t TB, prog *Program, opts RunOpts) *Env {
	e := &Env{t: t, prog: prog, cfg: prog.Cfg, opts: opts, ord: map[string]int{}, flags: map[string]int{}}
	e.root = newRoot()
	e.m = NewModel(e.cfg)
	sod.LowercaseNames = e.cfg.Lower
	if opts.PreOpen != nil {
		opts.PreOpen(e.root)
	}
	e.db = sod.Open(e.root)
	if err := e.db.Create(&Doc{}, e.cfg.Schema()); err != nil {
		e.failf("Create: %v", err)
	}
	for i := 0; i < 2; i++ {
		e.absent = append(e.absent, seedUUID(0xabcdef0000000000+uint64(i)))
	}
	return e
}

// Teardown closes every handle and removes the root.
func (e *Env) Teardown() {
	if e.closed {
		return
	}
	e.closed = true
	// a handle whose lock was leaked by the code under test must not wedge the harness
	done := make(chan struct{})
	go func() {
		defer close(done)
		defer func() { recover() }()
		if e.db != nil {
			e.db.Close()
		}
		for _, h := range e.abandoned {
			h.Close()
		}
	}()
	select {
	case <-done:
	case <-time.After(60 * time.Second):
		// Close does not return (a lock leaked by the code under test): leave the directory
		// alone, a flusher that is still alive would panic on a vanished root; the driver
		// removes the whole work directory at the end
		sod.LowercaseNames = false
		return
	}
	os.RemoveAll(e.root)
	sod.LowercaseNames = false
}

func (e *Env) collDir() string {
	name := "props.Doc"
	if e.cfg.Lower {
		name = "props._doc" // camelToSnake("props.Doc") as produced by the pinned release
	}
	return filepath.Join(e.root, name)
}

// ---------------------------------------------------------------- observation

type Obs map[string]string

func (e *Env) docLine(o sod.Object) string {
	d, ok := o.(*Doc)
	if !ok {
		return fmt.Sprintf("!type %T", o)
	}
	return e.tag(d.UUID()) + ":" + canon(d)
}

func (e *Env) linesOf(objs []sod.Object) string {
	ls := make([]string, 0, len(objs))
	for _, o := range objs {
		ls = append(ls, e.docLine(o))
	}
	sort.Strings(ls)
	return strings.Join(ls, "\n")
}

func (e *Env) modelLines(ids map[string]bool) string {
	ls := make([]string, 0, len(ids))
	for id := range ids {
		ls = append(ls, e.tag(id)+":"+canon(e.m.objs[id]))
	}
	sort.Strings(ls)
	return strings.Join(ls, "\n")
}

func errObs(err error) string { return "err:" + classify(err) }

// runQuery builds and evaluates a search chain on the live handle.
func (e *Env) runQuery(db *sod.DB, q Query) *sod.Search {
	var s *sod.Search
	for i, l := range q.Leaves {
		p := docPathIndex[l.Path]
		v := l.V.Iface(p)
		if i == 0 {
			s = db.Search(&Doc{}, l.Path, l.Op, v)
			continue
		}
		if l.Via != "" {
			s = s.Operation(l.Via, l.Path, l.Op, v)
		} else if l.Conn == "or" {
			s = s.Or(l.Path, l.Op, v)
		} else {
			s = s.And(l.Path, l.Op, v)
		}
	}
	return s
}

func keyString(n norm) string {
	switch n.cls {
	case ClsInt:
		return fmt.Sprintf("%d", n.i)
	case ClsUint:
		return fmt.Sprintf("%d", n.u)
	case ClsFloat:
		return fmt.Sprintf("%v", n.f+0) // -0 and 0 are the same key
	case ClsStr:
		return fmt.Sprintf("%q", n.s)
	}
	return "?"
}

// observeQuery: result multiset, Len, and (when specified) the key sequence.
func (e *Env) observeQuery(db *sod.DB, q Query, obs Obs) {
	key := "q:" + q.String()
	s := e.runQuery(db, q)
	if s.Err() != nil {
		obs[key] = errObs(s.Err())
		if objs, err := s.Collect(); err == nil || len(objs) > 0 {
			obs[key] += fmt.Sprintf(" but Collect returned %d objects, err=%v", len(objs), err)
		}
		return
	}
	n := s.Len()
	objs, err := s.Collect()
	if err != nil {
		obs[key] = "collect-" + errObs(err)
		return
	}
	obs[key] = fmt.Sprintf("len=%d\n%s", n, e.linesOf(objs))
	{
		// exact order (ties included): only compared between two handles across a reopen
		seq := make([]string, 0, len(objs))
		for _, o := range objs {
			seq = append(seq, e.tag(o.UUID()))
		}
		obs["qseq:"+q.String()] = strings.Join(seq, " ")
	}
	if p, ok := e.m.orderedLast(q); ok {
		ks := make([]string, 0, len(objs))
		for _, o := range objs {
			if d, ok := o.(*Doc); ok {
				ks = append(ks, keyString(normLeaf(d, p)))
			}
		}
		obs["qord:"+q.String()] = strings.Join(ks, " ")
	}
}

func (e *Env) expectQuery(q Query, exp Obs) {
	key := "q:" + q.String()
	set, cls := e.m.Eval(q)
	if cls != OK {
		if cls == ERegex {
			cls = EOther
		}
		exp[key] = "err:" + cls
		return
	}
	exp[key] = fmt.Sprintf("len=%d\n%s", len(set), e.modelLines(set))
	e.sweepQueries_++
	if len(set) > 0 && len(set) < len(e.m.objs) {
		e.flag("sweep-query-partial-result")
		e.sweepPartial++
	}
	if p, ok := e.m.orderedLast(q); ok {
		ks := e.m.sortedKeys(set, p, false)
		ss := make([]string, len(ks))
		for i, k := range ks {
			ss[i] = keyString(k)
		}
		exp["qord:"+q.String()] = strings.Join(ss, " ")
	}
}

// sweepQueries derives the automatic query set from the model state.
func (e *Env) sweepQueries() []Query {
	if e.opts.SweepLevel == 0 {
		return nil
	}
	paths := map[string]bool{}
	for _, p := range e.cfg.IndexedPaths() {
		paths[p.Path] = true
	}
	for _, p := range e.opts.FocusPaths {
		paths[p] = true
	}
	names := make([]string, 0, len(paths))
	for p := range paths {
		names = append(names, p)
	}
	sort.Strings(names)
	var qs []Query
	ops := []string{"=", "!=", "<", "<=", ">", ">="}
	for _, name := range names {
		p := docPathIndex[name]
		// distinct stored values in ascending order
		var vals []norm
		for _, id := range e.m.live {
			vals = append(vals, normLeaf(e.m.objs[id], p))
		}
		sort.Slice(vals, func(i, j int) bool { return vals[i].cmp(vals[j]) < 0 })
		var dist []norm
		for _, v := range vals {
			if len(dist) == 0 || dist[len(dist)-1].cmp(v) != 0 {
				dist = append(dist, v)
			}
		}
		var probes []Val
		add := func(n norm) { probes = append(probes, valOfNorm(n, p)) }
		if len(dist) > 0 {
			add(dist[0])
			add(dist[len(dist)-1])
			add(dist[len(dist)/2])
			if lo, ok := below(dist[0]); ok {
				add(lo)
			}
			if hi, ok := above(dist[len(dist)-1]); ok {
				add(hi)
			}
			if e.opts.SweepLevel >= 2 {
				for _, d := range dist {
					add(d)
					if hi, ok := above(d); ok {
						add(hi)
					}
				}
			}
		} else {
			add(norm{cls: p.Class})
		}
		seen := map[string]bool{}
		for _, pv := range probes {
			if seen[pv.String()] {
				continue
			}
			seen[pv.String()] = true
			for _, op := range ops {
				qs = append(qs, Query{Leaves: []Leaf{{Path: name, Op: op, V: pv}}})
			}
		}
	}
	return qs
}

func valOfNorm(n norm, p PathInfo) Val {
	switch n.cls {
	case ClsInt:
		if p.Time {
			return Val{K: "t", T: time.Unix(0, n.i).UTC()}
		}
		return Val{K: "i", I: n.i}
	case ClsUint:
		return Val{K: "u", U: n.u}
	case ClsFloat:
		return Val{K: "f", F: n.f}
	}
	return Val{K: "s", S: n.s}
}

func below(n norm) (norm, bool) {
	switch n.cls {
	case ClsInt:
		if n.i > -1<<63 {
			n.i--
			return n, true
		}
	case ClsUint:
		if n.u > 0 {
			n.u--
			return n, true
		}
	case ClsFloat:
		n.f = nextAfter(n.f, -1)
		return n, true
	case ClsStr:
		if len(n.s) > 0 {
			n.s = n.s[:len(n.s)-1]
			if validUTF8(n.s) {
				return n, true
			}
		}
	}
	return n, false
}

func above(n norm) (norm, bool) {
	switch n.cls {
	case ClsInt:
		if n.i < 1<<63-1 {
			n.i++
			return n, true
		}
	case ClsUint:
		if n.u < 1<<64-1 {
			n.u++
			return n, true
		}
	case ClsFloat:
		n.f = nextAfter(n.f, 1)
		return n, true
	case ClsStr:
		n.s += "\x01"
		return n, true
	}
	return n, false
}

// Observe collects everything a client can see through the read paths.
func (e *Env) Observe(db *sod.DB, queries []Query) Obs {
	obs := Obs{}
	if n, err := db.Count(&Doc{}); err != nil {
		obs["count"] = errObs(err)
	} else {
		obs["count"] = fmt.Sprint(n)
	}
	if objs, err := db.All(&Doc{}); err != nil {
		obs["all"] = errObs(err)
	} else {
		obs["all"] = e.linesOf(objs)
	}
	var docs []*Doc
	if err := db.AssignAll(&Doc{}, &docs); err != nil {
		obs["assignall"] = errObs(err)
	} else {
		objs := make([]sod.Object, len(docs))
		for i := range docs {
			objs[i] = docs[i]
		}
		obs["assignall"] = e.linesOf(objs)
	}
	// receivers are reused the way applications do: the object handed to Get / GetByUUID was
	// used for another uuid before (and still carries that one's data)
	prevID := ""
	lookup := func(id, suffix string) {
		d := &Doc{S: "receiver"}
		if prevID != "" {
			d.Initialize(prevID)
		}
		d.Initialize(id)
		if o, err := db.Get(d); err != nil {
			obs["get"+suffix+":"+e.tag(id)] = errObs(err)
		} else {
			obs["get"+suffix+":"+e.tag(id)] = e.docLine(o)
		}
		recv := &Doc{I64: 42}
		if prevID != "" {
			recv.Initialize(prevID)
		}
		prevID = id
		if o, err := db.GetByUUID(recv, id); err != nil {
			obs["getbyuuid"+suffix+":"+e.tag(id)] = errObs(err)
		} else {
			obs["getbyuuid"+suffix+":"+e.tag(id)] = e.docLine(o)
		}
		d2 := &Doc{}
		d2.Initialize(id)
		if ok, err := db.Exist(d2); err != nil {
			obs["exist"+suffix+":"+e.tag(id)] = errObs(err)
		} else {
			obs["exist"+suffix+":"+e.tag(id)] = fmt.Sprint(ok)
		}
	}
	for _, id := range e.allIDs {
		lookup(id, "")
		if _, live := e.m.objs[id]; !live {
			lookup(id, "2") // an absent id is looked up twice in a row
		}
	}
	for _, id := range e.absent {
		e.note(id)
		lookup(id, "")
		lookup(id, "2")
	}
	for _, p := range e.cfg.IndexedPaths() {
		obs["index:"+p.Path] = e.assignIndex(db, p)
	}
	for _, q := range queries {
		e.observeQuery(db, q, obs)
	}
	if e.opts.Control && !e.dirty {
		if err := db.Control(); err != nil {
			obs["control"] = "err:" + err.Error()
		} else {
			obs["control"] = OK
		}
	}
	return obs
}

func (e *Env) assignIndex(db *sod.DB, p PathInfo) string {
	var out []string
	var err error
	// callers often reuse one target variable: it may be longer than the index and hold old values
	junk := len(e.m.objs) + 2 + len(p.Path)%3
	switch {
	case p.Time:
		v := make([]time.Time, junk)
		for i := range v {
			v[i] = time.Unix(7, 7)
		}
		err = db.AssignIndex(&Doc{}, p.Path, &v)
		for _, x := range v {
			out = append(out, fmt.Sprint(x.UTC().UnixNano()))
		}
	case p.Class == ClsInt:
		v := make([]int64, junk)
		for i := range v {
			v[i] = -7777
		}
		err = db.AssignIndex(&Doc{}, p.Path, &v)
		for _, x := range v {
			out = append(out, fmt.Sprint(x))
		}
	case p.Class == ClsUint:
		v := make([]uint64, junk)
		for i := range v {
			v[i] = 7777
		}
		err = db.AssignIndex(&Doc{}, p.Path, &v)
		for _, x := range v {
			out = append(out, fmt.Sprint(x))
		}
	case p.Class == ClsFloat:
		v := make([]float64, junk)
		for i := range v {
			v[i] = -77.77
		}
		err = db.AssignIndex(&Doc{}, p.Path, &v)
		for _, x := range v {
			out = append(out, fmt.Sprint(x+0))
		}
	default:
		v := make([]string, junk)
		for i := range v {
			v[i] = "junk"
		}
		err = db.AssignIndex(&Doc{}, p.Path, &v)
		for _, x := range v {
			out = append(out, fmt.Sprintf("%q", x))
		}
	}
	if err != nil {
		return errObs(err)
	}
	return strings.Join(out, " ")
}

// Expect computes the same observation map from the model.
func (e *Env) Expect(queries []Query) Obs {
	exp := Obs{}
	exp["count"] = fmt.Sprint(len(e.m.objs))
	all := map[string]bool{}
	for id := range e.m.objs {
		all[id] = true
	}
	exp["all"] = e.modelLines(all)
	exp["assignall"] = exp["all"]
	expectLookup := func(id, suffix string) {
		if d, ok := e.m.objs[id]; ok {
			line := e.tag(id) + ":" + canon(d)
			exp["get"+suffix+":"+e.tag(id)] = line
			exp["getbyuuid"+suffix+":"+e.tag(id)] = line
			exp["exist"+suffix+":"+e.tag(id)] = "true"
		} else {
			exp["get"+suffix+":"+e.tag(id)] = "err:" + ENotExist
			exp["getbyuuid"+suffix+":"+e.tag(id)] = "err:" + ENotExist
			exp["exist"+suffix+":"+e.tag(id)] = "false"
		}
	}
	for _, id := range e.allIDs {
		expectLookup(id, "")
		if _, live := e.m.objs[id]; !live {
			expectLookup(id, "2")
		}
	}
	for _, id := range e.absent {
		e.note(id)
		expectLookup(id, "")
		expectLookup(id, "2")
	}
	for _, p := range e.cfg.IndexedPaths() {
		ks := e.m.sortedKeys(all, p, false)
		ss := make([]string, len(ks))
		for i, k := range ks {
			ss[i] = keyString(k)
		}
		exp["index:"+p.Path] = strings.Join(ss, " ")
	}
	for _, q := range queries {
		e.expectQuery(q, exp)
	}
	if e.opts.Control && !e.dirty {
		exp["control"] = OK
	}
	return exp
}

func diffObs(got, want Obs) []string {
	var out []string
	keys := map[string]bool{}
	for k := range got {
		keys[k] = true
	}
	for k := range want {
		keys[k] = true
	}
	for k := range keys {
		// exact result sequences exist only on observed handles (the model leaves tie order free)
		if strings.HasPrefix(k, "qseq:") {
			if _, a := got[k]; !a {
				delete(keys, k)
			} else if _, b := want[k]; !b {
				delete(keys, k)
			}
		}
	}
	ks := make([]string, 0, len(keys))
	for k := range keys {
		ks = append(ks, k)
	}
	sort.Strings(ks)
	for _, k := range ks {
		if got[k] != want[k] {
			out = append(out, fmt.Sprintf("[%s]\n   got:  %s\n   want: %s", k, indent(got[k]), indent(want[k])))
		}
	}
	return out
}

func indent(s string) string { return strings.ReplaceAll(s, "\n", "\n         ") }

// Diff returns the read paths on which the live handle differs from the model.
func (e *Env) Diff() []string {
	qs := e.sweepQueries()
	got := e.Observe(e.db, qs)
	want := e.Expect(qs)
	return diffObs(got, want)
}

// Check compares the live handle with the model on every read path.
func (e *Env) Check(where string) {
	qs := e.sweepQueries()
	e.absentCheckNote()
	got := e.Observe(e.db, qs)
	want := e.Expect(qs)
	if e.opts.Trace {
		b, _ := json.Marshal(got)
		e.tracef("%s: %s", where, b)
	}
	if d := diffObs(got, want); len(d) > 0 {
		if len(d) > 6 {
			d = append(d[:6], fmt.Sprintf("... and %d more", len(d)-6))
		}
		e.failf("%s: observation differs from model:\n%s", where, strings.Join(d, "\n"))
	}
	if e.opts.Walk && !e.dirty && e.cfg.Async == nil {
		e.walkCheck(where)
	}
}

func (e *Env) absentCheckNote() {
	if len(e.m.dead) > 0 {
		e.flag("absent-lookup-of-deleted")
	}
}

// ---------------------------------------------------------------- op execution

func (e *Env) liveRef(ref int) (string, bool) {
	if len(e.m.live) == 0 {
		return "", false
	}
	if ref < 0 {
		// counted from the most recently stored object
		return e.m.live[len(e.m.live)-1-(-ref-1)%len(e.m.live)], true
	}
	return e.m.live[ref%len(e.m.live)], true
}

func (e *Env) deadRef(ref int) (string, bool) {
	if len(e.m.dead) == 0 {
		return "", false
	}
	if ref < 0 {
		ref = -ref
	}
	return e.m.dead[ref%len(e.m.dead)], true
}

func applySets(d *Doc, sets []FieldSet) {
	for _, s := range sets {
		if p, ok := docPathIndex[s.Path]; ok && p.Class != ClsNone {
			setLeaf(d, p, s.V)
		}
	}
}

// upsert runs one InsertOrUpdate against db and model and compares outcomes.
func (e *Env) upsert(what string, d *Doc, id string) {
	want, tv := e.m.Upsert(d, id)
	e.classifyUpsert(d, id, want, tv)
	arg := cloneDoc(d)
	arg.Initialize(id)
	if e.argOverride != nil {
		arg = e.argOverride
	}
	if e.prepArg != nil {
		e.prepArg(arg)
	}
	err := e.db.InsertOrUpdate(arg)
	got := classify(err)
	e.tracef("%s -> %s", what, got)
	if got != want {
		e.failf("%s: InsertOrUpdate outcome %q (%v), model says %q", what, got, err, want)
	}
	if err == nil && e.onStored != nil {
		defer e.onStored(arg)
	}
	switch want {
	case OK:
		nid := arg.UUID()
		if id == "" {
			if nid == "" {
				e.failf("%s: accepted new object has empty uuid", what)
			}
			if _, seen := e.ord[nid]; seen {
				e.failf("%s: new object received uuid %s which was already used in this case", what, nid)
			}
		} else if nid != id {
			e.failf("%s: identified object changed uuid %s -> %s", what, id, nid)
		}
		e.note(nid)
		if _, isUpd := e.m.objs[nid]; isUpd {
			e.flag("accepted-update")
		}
		e.trackStore(nid, tv)
		e.m.store(nid, tv)
		if e.cfg.Async != nil {
			e.dirty = true
		}
		// what Validate saw must be what got stored (Transform -> case -> Validate)
		if arg.seen != canon(tv) {
			e.failf("%s: Validate saw %s but the model's transformed value is %s", what, arg.seen, canon(tv))
		}
	case EUnique:
		e.flag("rejected-unique")
		if id != "" {
			if _, live := e.m.objs[id]; live {
				e.flag("rejected-update")
			}
		}
	case EInvalid:
		e.flag("rejected-invalid")
		if id != "" {
			if _, live := e.m.objs[id]; live {
				e.flag("rejected-update")
			}
		}
	}
}

func (e *Env) deleteIDs(set map[string]bool) {
	// deterministic order (creation ordinal): later relative refs depend on it
	ids := make([]string, 0, len(set))
	for id := range set {
		ids = append(ids, id)
	}
	sort.Slice(ids, func(i, j int) bool { return e.ord[ids[i]] < e.ord[ids[j]] })
	for _, id := range ids {
		e.trackDelete(id)
		e.m.Delete(id)
	}
}

// ---- classification helpers (evidence only; they never decide pass/fail)

func (e *Env) releasedSet(path string) map[string]bool {
	if e.released == nil {
		e.released = map[string]map[string]bool{}
	}
	if e.released[path] == nil {
		e.released[path] = map[string]bool{}
	}
	return e.released[path]
}

func (e *Env) trackDelete(id string) {
	d, ok := e.m.objs[id]
	if !ok {
		return
	}
	for _, p := range e.cfg.UniquePaths() {
		e.releasedSet(p.Path)[keyString(normLeaf(d, p))] = true
	}
}

func (e *Env) trackStore(id string, tv *Doc) {
	old := e.m.objs[id]
	for _, p := range e.cfg.UniquePaths() {
		k := keyString(normLeaf(tv, p))
		if old != nil {
			ok := keyString(normLeaf(old, p))
			if ok != k {
				e.releasedSet(p.Path)[ok] = true
				e.flag("unique-key-moved")
			}
		}
		if e.releasedSet(p.Path)[k] && (old == nil || keyString(normLeaf(old, p)) != k) {
			e.flag("reuse-of-released-unique-value")
			if e.reopened {
				e.flag("reuse-of-released-unique-value-after-reopen")
			}
			delete(e.releasedSet(p.Path), k)
		}
	}
	if old != nil {
		for _, p := range e.cfg.IndexedPaths() {
			if normLeaf(old, p).cmp(normLeaf(tv, p)) != 0 {
				e.flag("update-moved-indexed-key")
				break
			}
		}
	}
	if e.reopened {
		e.flag("write-after-reopen")
	}
}

func (e *Env) classifyUpsert(d *Doc, id string, want string, tv *Doc) {
	// validity that depends on the transformed value (C15)
	raw := cloneDoc(d)
	rawValid := raw.Validate() == nil
	if rawValid != (want != EInvalid) {
		e.flag("validity-depends-on-transform")
	}
	if d.H != (Hooks{}) {
		e.flag("hooks-active")
	}
	// case canonicalisation changed the supplied value (C16)
	for path, c := range e.cfg.Cons {
		if (c.Upper || c.Lower) && docPathIndex[path].Class == ClsStr && !throughNil(d, path) {
			pre := cloneDoc(d)
			pre.Transform()
			if canonCase(c, leaf(pre, path).String()) != leaf(pre, path).String() {
				e.flag("case-changed-on-store")
				if strings.Contains(path, ".") {
					e.flag("case-changed-on-store-nested")
				}
			}
		}
	}
	if want == EUnique && e.reopened {
		e.flag("rejected-unique-after-reopen")
	}
}

// Exec runs one op. It returns false when the op was not applicable (skipped).
func (e *Env) Exec(i int, op *Op) bool {
	e.step = i
	what := fmt.Sprintf("op %d (%s)", i, op.Op)
	switch op.Op {
	case "insert":
		e.upsert(what, op.D, "")
	case "upsertUUID":
		id := seedUUID(op.Seed)
		if op.Ref%5 == 1 {
			// the uuid of a stored object in the other letter case: another name, another object
			if lid, ok := e.liveRef(op.Ref); ok {
				if alt := strings.ToUpper(lid); alt != lid {
					id = alt
				} else if alt := strings.ToLower(lid); alt != lid {
					id = alt
				}
				e.flag("uuid-differs-from-a-stored-one-in-case-only")
			}
		}
		if _, used := e.m.last[id]; used {
			return false
		}
		e.upsert(what, op.D, id)
	case "update":
		id, ok := e.liveRef(op.Ref)
		if !ok {
			return false
		}
		var d *Doc
		if op.D != nil {
			d = cloneDoc(op.D)
		} else {
			d = cloneDoc(e.m.objs[id])
			if op.Ref%4 == 1 && !e.opts.NoObs {
				// read-modify-write the way applications do it: the object handed to
				// InsertOrUpdate is the very one a read returned, modified in place
				var src sod.Object
				if (op.Ref/12)%2 == 0 && !e.holdingSearch {
					// ... and that read is the first one of a cold handle
					e.reopen(what+" (restart before the read)", false)
					e.flag("update-of-an-object-returned-by-the-first-read-of-a-cold-handle")
				}
				switch (op.Ref / 4) % 3 {
				case 0:
					probe := &Doc{}
					probe.Initialize(id)
					src, _ = e.db.Get(probe)
				case 1:
					if all, err := e.db.All(&Doc{}); err == nil {
						for _, o := range all {
							if o.UUID() == id {
								src = o
							}
						}
					}
				default:
					if objs, err := e.db.Search(&Doc{}, "I64", "=", d.I64).Collect(); err == nil {
						for _, o := range objs {
							if o.UUID() == id {
								src = o
							}
						}
					}
				}
				if sd, ok := src.(*Doc); ok && canon(sd) == canon(d) {
					applySets(sd, op.Sets)
					e.argOverride = sd
					e.flag("update-of-an-object-returned-by-a-read")
				}
			}
		}
		applySets(d, op.Sets)
		e.upsert(what, d, id)
		e.argOverride = nil
	case "resave":
		id, ok := e.liveRef(op.Ref)
		if !ok {
			return false
		}
		e.upsert(what, cloneDoc(e.m.objs[id]), id)
	case "resurrect":
		id, ok := e.deadRef(op.Ref)
		if !ok {
			return false
		}
		d := cloneDoc(e.m.last[id])
		applySets(d, op.Sets)
		e.upsert(what, d, id)
		e.flag("resurrect")
	case "delete":
		id, ok := e.liveRef(op.Ref)
		if !ok {
			return false
		}
		d := &Doc{}
		d.Initialize(id)
		if err := e.db.Delete(d); err != nil {
			e.failf("%s: Delete(%s) failed: %v", what, e.tag(id), err)
		}
		e.trackDelete(id)
		e.m.Delete(id)
		e.flag("delete")
	case "deleteAbsent":
		id, ok := e.deadRef(op.Ref)
		if !ok {
			id = e.absent[0]
		}
		d := &Doc{}
		d.Initialize(id)
		e.db.Delete(d) // outcome unspecified; state must not change
	case "deleteAll":
		if op.Ref%3 == 1 {
			// the same through the public iterator: Iterator + DeleteObjects
			it, err := e.db.Iterator(&Doc{})
			if err != nil {
				e.failf("%s: Iterator failed: %v", what, err)
			}
			if err := e.db.DeleteObjects(it); err != nil {
				e.failf("%s: DeleteObjects(Iterator) failed: %v", what, err)
			}
			e.flag("delete-through-iterator")
		} else if err := e.db.DeleteAll(&Doc{}); err != nil {
			e.failf("%s: DeleteAll failed: %v", what, err)
		}
		if len(e.m.live) > 0 {
			e.flag("delete")
		}
		for _, id := range append([]string(nil), e.m.live...) {
			e.trackDelete(id)
			e.m.Delete(id)
		}
	case "searchDelete":
		set, cls := e.m.Eval(*op.Q)
		s := e.runQuery(e.db, *op.Q)
		if cls != OK {
			if s.Err() == nil && s.Len() > 0 {
				e.failf("%s: query %s cannot be evaluated (%s) but matched %d objects", what, op.Q, cls, s.Len())
			}
			if s.Err() == nil {
				s.Delete()
			}
			return true
		}
		if s.Err() != nil {
			e.failf("%s: query %s failed: %v", what, op.Q, s.Err())
		}
		if len(set) > 1 && op.Ref%4 == 2 {
			// a limit, or a One() consumed before, does not narrow what Delete removes
			if op.Ref%8 == 2 {
				s = s.Limit(1)
			} else if _, err := s.One(); err != nil {
				e.failf("%s: One() before Delete: %v", what, err)
			}
			e.flag("search-delete-after-limit-or-one")
		}
		if op.Ref%3 == 1 {
			it, err := s.Iterator()
			if err != nil {
				e.failf("%s: Search.Iterator failed: %v", what, err)
			}
			if err := e.db.DeleteObjects(it); err != nil {
				e.failf("%s: DeleteObjects(Search.Iterator) failed: %v", what, err)
			}
			e.flag("delete-through-iterator")
		} else if err := s.Delete(); err != nil {
			e.failf("%s: Search.Delete failed: %v", what, err)
		}
		if len(set) > 0 {
			e.flag("delete")
			e.flag("search-delete")
		}
		e.deleteIDs(set)
	case "many":
		e.execMany(what, op)
	case "bulk":
		e.execBulk(what, op)
	case "query":
		e.execQuery(what, op.Q)
	case "reopen":
		e.reopen(what, false)
	case "abandonReopen":
		if e.cfg.Async != nil {
			return false
		}
		e.reopen(what, true)
	case "createAgain":
		if err := e.db.Create(&Doc{}, e.cfg.Schema()); err != nil {
			e.failf("%s: Create with an identical schema failed: %v", what, err)
		}
	case "flushAllCommit":
		if err := e.db.FlushAllAndCommit(&Doc{}); err != nil {
			e.failf("%s: FlushAllAndCommit: %v", what, err)
		}
		e.dirty = false
	case "flushAll":
		if err := e.db.FlushAll(&Doc{}); err != nil {
			e.failf("%s: FlushAll: %v", what, err)
		}
	case "commit":
		if err := e.db.Commit(&Doc{}); err != nil {
			e.failf("%s: Commit: %v", what, err)
		}
	case "insertBad", "updateBad":
		// a value that cannot be serialised (NaN / Inf in a float field)
		var d *Doc
		id := ""
		if op.Op == "updateBad" {
			var ok bool
			if id, ok = e.liveRef(op.Ref); !ok {
				return false
			}
			d = cloneDoc(e.m.objs[id])
			d.H = Hooks{}
		} else {
			d = cloneDoc(op.D)
		}
		d.Initialize(id)
		poison(d, op.Aux)
		// the model can only decide rejections that precede serialisation
		probe := cloneDoc(op.D)
		if op.Op == "updateBad" {
			probe = cloneDoc(e.m.objs[id])
			probe.H = Hooks{}
		}
		err := e.db.InsertOrUpdate(d)
		e.tracef("%s -> %s", what, classify(err))
		if err == nil {
			e.failf("%s: an object holding %v in a float field (cannot be serialised) was accepted", what, op.Aux["val"])
		}
		e.flag("rejected-unserialisable")
		if id != "" {
			e.flag("rejected-update")
		}
	case "manyBad":
		args, mdocs, _, _ := e.resolveItems(op.Items)
		if len(args) == 0 {
			return false
		}
		k := op.Ref % len(args)
		if d, ok := args[k].(*Doc); ok && mdocs[k] != nil {
			poison(d, op.Aux)
		} else {
			return false
		}
		n, err := e.db.InsertOrUpdateMany(args...)
		e.tracef("%s -> n=%d %s", what, n, classify(err))
		if err == nil || n != 0 {
			e.failf("%s: batch with an unserialisable member at position %d: n=%d err=%v, want n=0 and an error", what, k, n, err)
		}
		e.flag("rejected-unserialisable")
		e.flag("batch-rejected")
		if k > 0 {
			e.flag("batch-offender-not-first")
		}
	case "insertOther":
		// a collection that was never created
		err := e.db.InsertOrUpdate(&Other{K: 1, V: "x"})
		if err == nil {
			e.failf("%s: InsertOrUpdate into a collection that was never created succeeded", what)
		}
		if ents, _ := os.ReadDir(e.root); len(ents) != 1 {
			e.failf("%s: a rejected insert into a never-created collection left %d entries in the database root", what, len(ents))
		}
		e.flag("rejected-unknown-collection")
	case "repairLive":
		// Repair on a healthy live handle finds nothing to do and changes nothing
		if err := e.db.Repair(&Doc{}); err != nil {
			e.failf("%s: Repair on a healthy live handle: %v", what, err)
		}
		e.flag("repair-on-a-healthy-live-handle")
	case "flushOne", "otherInsert", "other2Insert", "otherSwitch", "coldUpdate", "crashRepair", "switch", "switchBad":
		// executed by the property's AfterOp hook (C10)
	case "tick":
		// virtual time: advanced by the property's AfterOp hook (instrumented build)
	case "snapshot":
		e.execSnapshot(what, op)
	case "check":
		e.Check(what)
	default:
		if e.opts.AfterOp == nil {
			e.failf("unknown op %q", op.Op)
		}
	}
	return true
}

// resolveItems builds the argument list of a batch and, sharing structure the
// same way, the model's private copies.
func (e *Env) resolveItems(items []BatchItem) (args []sod.Object, mdocs []*Doc, mids []string, hasOther bool) {
	for k, it := range items {
		kind := it.Kind
		if (kind == "same" || kind == "copy") && (k == 0 || len(args) == 0) {
			kind = "new"
		}
		if kind == "upd" && len(e.m.live) == 0 {
			kind = "new"
		}
		if (kind == "other" || kind == "otheruuid") && k == 0 {
			kind = "new"
		}
		switch kind {
		case "new", "newuuid":
			d := it.D
			if d == nil {
				d = &Doc{}
			}
			id := ""
			if kind == "newuuid" {
				id = seedUUID(it.Seed)
				if _, used := e.m.last[id]; used {
					id = ""
				}
				for _, x := range mids {
					if x == id {
						id = ""
					}
				}
			}
			a := cloneDoc(d)
			a.Initialize(id)
			mc := cloneDoc(d)
			mc.Initialize(id)
			args = append(args, a)
			mdocs = append(mdocs, mc)
			mids = append(mids, id)
		case "upd":
			id, _ := e.liveRef(it.Ref)
			d := cloneDoc(e.m.objs[id])
			applySets(d, it.Sets)
			a := cloneDoc(d)
			a.Initialize(id)
			args = append(args, a)
			mdocs = append(mdocs, d)
			mids = append(mids, id)
		case "same":
			j := it.Prev % len(args)
			if j < 0 {
				j = -j
			}
			if mdocs[j] == nil { // an Other
				j = 0
			}
			args = append(args, args[j])
			mdocs = append(mdocs, mdocs[j])
			mids = append(mids, mids[j])
		case "copy":
			j := it.Prev % len(args)
			if j < 0 {
				j = -j
			}
			if mdocs[j] == nil || mids[j] == "" {
				// uuid unknown before the call: cannot copy it; degrade to new
				d := it.D
				if d == nil {
					d = &Doc{}
				}
				args = append(args, cloneDoc(d))
				mdocs = append(mdocs, cloneDoc(d))
				mids = append(mids, "")
				continue
			}
			d := cloneDoc(mdocs[j])
			applySets(d, it.Sets)
			a := cloneDoc(d)
			a.Initialize(mids[j])
			args = append(args, a)
			mdocs = append(mdocs, d)
			mids = append(mids, mids[j])
		case "other", "otheruuid":
			o := &Other{K: 1}
			if kind == "otheruuid" {
				o.Initialize(seedUUID(it.Seed | 1<<63))
			}
			args = append(args, o)
			mdocs = append(mdocs, nil)
			mids = append(mids, "")
			hasOther = true
		}
	}
	return
}

// modelBatch decides a batch: (accepted, final value per distinct uuid-slot).
// tmp ids "new#k" stand for uuids sod will assign.
func (e *Env) modelBatch(mdocs []*Doc, mids []string) (string, map[string]*Doc, []string) {
	tmp := map[string]*Doc{}
	ids := make([]string, len(mdocs))
	slot := map[*Doc]string{}
	for k, d := range mdocs {
		if d == nil {
			if k > 0 {
				e.flag("batch-offender-not-first")
			}
			e.flag("batch-wrong-type")
			return EType, nil, nil
		}
		id := mids[k]
		if id == "" {
			if s, ok := slot[d]; ok {
				id = s
			} else {
				id = fmt.Sprintf("new#%d", k)
			}
		}
		slot[d] = id
		ids[k] = id
		d.Initialize(id)
		if _, again := tmp[id]; again {
			e.flag("batch-same-uuid-twice")
		}
		if _, live := e.m.objs[id]; live {
			e.flag("batch-updates-stored-object")
		}
		if out := e.m.prepare(d); out != OK {
			if k > 0 {
				e.flag("batch-offender-not-first")
			}
			e.flag("batch-invalid-member")
			return out, nil, nil
		}
		if e.m.conflicts(d, id, tmp) {
			e.flag("batch-intra-conflict")
			return EUnique, nil, nil
		}
		if e.m.conflicts(d, id, e.m.objs) {
			if k > 0 {
				e.flag("batch-offender-not-first")
			}
			e.flag("batch-conflict-with-stored")
			return EUnique, nil, nil
		}
		tmp[id] = d
	}
	return OK, tmp, ids
}

func (e *Env) batchClasses(items []BatchItem, mids []string, want string) {
	if want != OK {
		e.flag("batch-rejected")
	} else if len(items) > 0 {
		e.flag("batch-accepted")
	}
}

func (e *Env) applyBatch(what string, args []sod.Object, final map[string]*Doc, ids []string) {
	// every member value per uuid, in write order (crash oracles need the intermediates)
	e.lastVersions = map[string][]string{}
	defer func() {
		for k, a := range args {
			if d, ok := a.(*Doc); ok {
				_ = k
				if k < len(e.curMdocs) && e.curMdocs[k] != nil {
					e.lastVersions[d.UUID()] = append(e.lastVersions[d.UUID()], canon(e.curMdocs[k]))
				}
			}
		}
	}()
	// map tmp ids to the uuids sod assigned
	assigned := map[string]string{}
	for k, a := range args {
		id := ids[k]
		real := a.UUID()
		if strings.HasPrefix(id, "new#") {
			if real == "" {
				e.failf("%s: accepted batch member %d has empty uuid", what, k)
			}
			if prev, ok := assigned[id]; ok && prev != real {
				e.failf("%s: one object got two uuids", what)
			}
			if _, seen := e.ord[real]; seen && assigned[id] == "" {
				e.failf("%s: batch member %d received an already used uuid", what, k)
			}
			assigned[id] = real
			e.note(real)
		} else {
			if real != id {
				e.failf("%s: batch member %d changed uuid %s -> %s", what, k, id, real)
			}
			e.note(real)
		}
	}
	// apply in argument order so creation order is deterministic
	done := map[string]bool{}
	for k := range args {
		id := ids[k]
		if done[id] {
			continue
		}
		done[id] = true
		real := id
		if r, ok := assigned[id]; ok {
			real = r
		}
		e.m.store(real, cloneDoc(final[id]))
	}
	if e.cfg.Async != nil && len(args) > 0 {
		e.dirty = true
	}
}

func (e *Env) execMany(what string, op *Op) {
	args, mdocs, mids, _ := e.resolveItems(op.Items)
	want, final, ids := e.modelBatch(mdocs, mids)
	n, err := e.db.InsertOrUpdateMany(args...)
	e.tracef("%s -> n=%d %s", what, n, classify(err))
	e.batchClasses(op.Items, mids, want)
	if want == OK {
		if err != nil {
			e.failf("%s: InsertOrUpdateMany rejected a batch the model accepts: %v", what, err)
		}
		if n != len(args) {
			e.failf("%s: InsertOrUpdateMany n=%d, want %d", what, n, len(args))
		}
		e.curMdocs = mdocs
		e.applyBatch(what, args, final, ids)
		if e.onStored != nil {
			done := map[sod.Object]bool{}
			for _, a := range args {
				if d, ok := a.(*Doc); ok && !done[a] {
					done[a] = true
					e.onStored(d)
				}
			}
		}
		return
	}
	if err == nil {
		e.failf("%s: InsertOrUpdateMany accepted a batch the model rejects (%s)", what, want)
	}
	if n != 0 {
		e.failf("%s: InsertOrUpdateMany failed (%v) but reports n=%d", what, err, n)
	}
	got := classify(err)
	if want != EType && got != want {
		e.failf("%s: InsertOrUpdateMany error class %q (%v), model says %q", what, got, err, want)
	}
}

func (e *Env) execBulk(what string, op *Op) {
	args, mdocs, mids, _ := e.resolveItems(op.Items)
	csize := op.CSize
	if csize < 0 {
		csize = 0
	}
	// model: chunks in arrival order until the first failing chunk
	type chunk struct{ lo, hi int }
	var chunks []chunk
	if csize == 0 {
		chunks = []chunk{{0, len(args)}}
	} else {
		lo := 0
		for lo+csize <= len(args) {
			chunks = append(chunks, chunk{lo, lo + csize})
			lo += csize
		}
		chunks = append(chunks, chunk{lo, len(args)}) // last (maybe empty) chunk
	}
	var ch chan sod.Object
	if len(args)%2 == 1 {
		// the library's own slice-to-channel helper (unbuffered, fed by a goroutine)
		ch = sod.ToObjectChan(args)
		e.flag("bulk-through-ToObjectChan")
	} else {
		ch = make(chan sod.Object, len(args))
		for _, a := range args {
			ch <- a
		}
		close(ch)
	}
	n, err := e.db.InsertOrUpdateBulk(ch, csize)
	e.tracef("%s -> n=%d err=%v", what, n, err != nil)
	wantN := 0
	wantErr := OK
	for ci, c := range chunks {
		if c.hi == c.lo {
			continue
		}
		w, final, ids := e.modelBatch(mdocs[c.lo:c.hi], mids[c.lo:c.hi])
		if w != OK {
			wantErr = w
			e.flag("bulk-failed-chunk")
			if ci > 0 {
				e.flag("bulk-failed-later-chunk")
			}
			break
		}
		// later chunks may refer to objects ("same") of earlier chunks: their
		// uuids are known now
		e.curMdocs = mdocs[c.lo:c.hi]
		e.applyBatch(what, args[c.lo:c.hi], final, ids)
		for k := c.lo; k < c.hi; k++ {
			for j := c.hi; j < len(args); j++ {
				if args[j] == args[k] {
					mids[j] = args[k].UUID()
				}
			}
		}
		wantN += c.hi - c.lo
	}
	if len(chunks) > 2 {
		e.flag("bulk-multi-chunk")
	}
	if n != wantN {
		e.failf("%s: InsertOrUpdateBulk n=%d (err=%v), model says %d (%s)", what, n, err, wantN, wantErr)
	}
	if (err == nil) != (wantErr == OK) {
		e.failf("%s: InsertOrUpdateBulk err=%v, model says %s", what, err, wantErr)
	}
}

// execQuery runs one explicit query op with its consumer / limit / reverse.
func (e *Env) execQuery(what string, q *Query) {
	set, cls := e.m.Eval(*q)
	s := e.runQuery(e.db, *q)
	if n := len(q.Leaves); n > 1 && cls == OK {
		// another chain ending on the same field is built (and dropped) while this one is still
		// to be consumed: whatever the library keeps per field must not be shared between them
		q2 := *q
		q2.Leaves = append([]Leaf(nil), q.Leaves...)
		last := q2.Leaves[n-1]
		if last.Op == "!=" {
			last.Op = "="
		} else if last.Op != "~=" {
			last.Op = "!="
		}
		q2.Leaves[n-1] = last
		// ... and with another left-hand side, so that it refines another set of objects
		left := q2.Leaves[0]
		if left.Op == "!=" {
			left.Op = "="
		} else if left.Op != "~=" {
			left.Op = "!="
		}
		q2.Leaves[0] = left
		if other := e.runQuery(e.db, q2); other.Err() == nil {
			other.Len()
		}
	}
	if cls == EUnspec {
		// a NaN probe: whatever the answer is, it is recorded (C12 compares it across storage
		// configurations) and must be made of stored objects
		objs, err := s.Collect()
		var tags []string
		for _, o := range objs {
			if _, ok := e.m.objs[o.UUID()]; !ok {
				e.failf("%s: query %s returned %s, which is not stored", what, q, o.UUID())
			}
			tags = append(tags, e.tag(o.UUID()))
		}
		sort.Strings(tags)
		e.tracef("%s %s -> len=%d err=%s collect=%s %v", what, q, s.Len(), classify(s.Err()), classify(err), tags)
		e.flag("query-nan-probe")
		return
	}
	if cls != OK {
		// the query cannot be evaluated: it must not return objects
		if s.Err() == nil {
			objs, err := s.Collect()
			if err == nil && len(objs) > 0 {
				e.failf("%s: query %s cannot be evaluated (%s) but returned %d objects", what, q, cls, len(objs))
			}
			// a pattern that does not compile (as the field's case constraint rewrites it) is an
			// error, not an empty result: "nothing matches" would be an answer to another question
			if cls == ERegex && err == nil && len(e.m.objs) > 0 && len(q.Leaves) == 1 {
				e.failf("%s: query %s uses a pattern that does not compile, but neither the search nor Collect reports an error", what, q)
			}
			e.tracef("%s %s -> no search error, collect: %d objects, %s", what, q, len(objs), classify(err))
		} else {
			e.tracef("%s %s -> search error %s", what, q, classify(s.Err()))
		}
		e.flag("query-unevaluable")
		e.flag("query-unevaluable-" + cls)
		return
	}
	if s.Err() != nil {
		e.failf("%s: query %s failed: %v (model: %d matches)", what, q, s.Err(), len(set))
	}
	if s.Len() != len(set) {
		e.failf("%s: query %s Len()=%d, model says %d", what, q, s.Len(), len(set))
	}
	if len(set) > 0 && len(set) < len(e.m.objs) {
		e.flag("query-partial-result")
	}
	e.flag("query-op-" + q.Leaves[len(q.Leaves)-1].Op)
	for _, l := range q.Leaves {
		c := e.cfg.Cons[l.Path]
		if (c.Upper || c.Lower) && l.V.K == "s" && canonCase(c, l.V.S) != l.V.S {
			e.flag("probe-case-changed")
			if len(set) > 0 {
				e.flag("probe-case-changed-and-matches")
			}
		}
		if e.cfg.Indexed(l.Path) {
			e.flag("query-indexed-leaf")
		} else {
			e.flag("query-unindexed-leaf")
		}
		if strings.HasPrefix(l.Path, "Pt.") {
			e.flag("query-through-pointer")
		}
	}
	if len(q.Leaves) > 1 {
		e.flag("query-chain")
	}
	if q.Reverse {
		s = s.Reverse()
		if len(q.Leaves)%2 == 0 || (q.Limit != nil && *q.Limit%2 == 1) {
			s = s.Reverse() // asking twice for the reversed order is still asking for it
			e.flag("query-reverse-requested-twice")
		}
	}
	wantN := len(set)
	if q.Limit != nil {
		s = s.Limit(*q.Limit)
		if *q.Limit < uint64(wantN) {
			wantN = int(*q.Limit)
			if wantN > 0 {
				e.flag("query-limit-cuts")
			}
		}
	}
	var objs []sod.Object
	var err error
	switch q.Consumer {
	case "expects", "expectszn":
		// Expects(n) / ExpectsZeroOrN(n): an unexpected number of results turns the search into an
		// error that every consumer reports; an expected number leaves it untouched
		n := len(set) + q.Expect
		if n < 0 {
			n = 0
		}
		fine := n == len(set)
		if q.Consumer == "expects" {
			s = s.Expects(n)
		} else {
			s = s.ExpectsZeroOrN(n)
			fine = fine || len(set) == 0
		}
		e.flag("query-consumer-" + q.Consumer)
		if !fine {
			if !errors.Is(s.Err(), sod.ErrUnexpectedNumberOfResults) {
				e.failf("%s: query %s has %d matches; %s(%d) leaves Err()=%v, want ErrUnexpectedNumberOfResults", what, q, len(set), q.Consumer, n, s.Err())
			}
			if objs, err := s.Collect(); err == nil || len(objs) > 0 {
				e.failf("%s: query %s has %d matches; after %s(%d) Collect returned %d objects, err=%v", what, q, len(set), q.Consumer, n, len(objs), err)
			}
			if o, err := s.One(); err == nil {
				e.failf("%s: query %s has %d matches; after %s(%d) One returned %s", what, q, len(set), q.Consumer, n, e.docLine(o))
			}
			return
		}
		if s.Err() != nil {
			e.failf("%s: query %s has %d matches; %s(%d) sets Err()=%v", what, q, len(set), q.Consumer, n, s.Err())
		}
		objs, err = s.Collect()
	case "assignunique":
		var d *Doc
		var target sod.Object = d
		err = s.AssignUnique(&target)
		e.flag("query-consumer-assignunique")
		switch {
		case len(set) > 1:
			if !errors.Is(err, sod.ErrUnexpectedNumberOfResults) {
				e.failf("%s: AssignUnique on %d matches of %s: err=%v, want ErrUnexpectedNumberOfResults", what, len(set), q, err)
			}
			return
		case len(set) == 0:
			if !errors.Is(err, sod.ErrNoObjectFound) {
				e.failf("%s: AssignUnique on an empty result of %s: err=%v, want ErrNoObjectFound", what, q, err)
			}
			return
		}
		if err != nil {
			e.failf("%s: AssignUnique on the single match of %s failed: %v", what, q, err)
		}
		objs = []sod.Object{target}
		wantN = 1
		if q.Limit != nil && *q.Limit == 0 {
			wantN = 1 // (One ignores a zero limit: pinned semantics)
		}
	case "one", "assignone":
		var o sod.Object
		if q.Consumer == "one" {
			o, err = s.One()
		} else {
			var d *Doc
			var target sod.Object = d
			err = s.AssignOne(&target)
			if err == nil {
				o = target
			}
		}
		if len(set) == 0 {
			if !errors.Is(err, sod.ErrNoObjectFound) {
				e.failf("%s: One() on empty result: err=%v, want ErrNoObjectFound", what, err)
			}
			return
		}
		if err != nil {
			e.failf("%s: One() failed: %v", what, err)
		}
		if s.Len() != len(set) {
			e.failf("%s: after One() the search %s reports Len()=%d, it matched %d objects", what, q, s.Len(), len(set))
		}
		// asking the same search value for its first result again gives a first result again
		if o2, err2 := s.One(); err2 != nil || !set[o2.UUID()] {
			e.failf("%s: One() called a second time on the search %s: err=%v (the search has %d matches)", what, q, err2, len(set))
		}
		objs = []sod.Object{o}
		wantN = 1
	case "assign":
		var docs []*Doc
		if err = s.Assign(&docs); err == nil {
			for _, d := range docs {
				objs = append(objs, d)
			}
		}
	default:
		objs, err = s.Collect()
	}
	if err != nil {
		e.failf("%s: collecting %s failed: %v", what, q, err)
	}
	if len(objs) != wantN {
		e.failf("%s: query %s returned %d objects, want %d (matches=%d)", what, q, len(objs), wantN, len(set))
	}
	seen := map[string]bool{}
	for _, o := range objs {
		d, ok := o.(*Doc)
		if !ok {
			e.failf("%s: result of type %T", what, o)
		}
		id := d.UUID()
		if !set[id] {
			e.failf("%s: query %s returned %s which does not match", what, q, e.docLine(o))
		}
		if seen[id] {
			e.failf("%s: query %s returned %s twice", what, q, e.tag(id))
		}
		seen[id] = true
		if canon(d) != canon(e.m.objs[id]) {
			e.failf("%s: query %s returned %s with value %s, model has %s", what, q, e.tag(id), canon(d), canon(e.m.objs[id]))
		}
	}
	// a Search value keeps denoting its own matches after refinements were derived from it
	if len(q.Leaves) > 1 {
		first := Query{Leaves: q.Leaves[:1]}
		base := e.runQuery(e.db, first)
		l := q.Leaves[1]
		v := l.V.Iface(docPathIndex[l.Path])
		var derived *sod.Search
		if l.Conn == "or" {
			derived = base.Or(l.Path, l.Op, v)
		} else {
			derived = base.And(l.Path, l.Op, v)
		}
		// what is done to the derived value (limit, order, expectations, consuming it) is not
		// done to the value it was derived from
		if derived != nil && base.Err() == nil {
			derived.Limit(0).Reverse()
			derived.Expects(len(e.m.objs) + 7)
			derived.One()
			if base.Err() != nil {
				e.failf("%s: Search(%s) was fine; after %s was derived from it and the DERIVED search was limited, reversed and given a wrong expectation, the base search reports %v", what, first, l.Conn, base.Err())
			}
		}
		if bset, bcls := e.m.Eval(first); bcls == OK && base.Err() == nil {
			bobjs, berr := base.Collect()
			if berr != nil || len(bobjs) != len(bset) {
				e.failf("%s: after deriving %s from Search(%s), collecting the base search returns %d objects (err=%v), it matched %d", what, l.Conn, first, len(bobjs), berr, len(bset))
			}
			for _, o := range bobjs {
				if !bset[o.UUID()] {
					e.failf("%s: after deriving %s from Search(%s), the base search returns %s which it never matched", what, l.Conn, first, e.docLine(o))
				}
			}
			if p, ok := e.m.orderedLast(first); ok {
				ks := e.m.sortedKeys(bset, p, false)
				for i, o := range bobjs {
					if normLeaf(o.(*Doc), p).cmp(ks[i]) != 0 {
						e.failf("%s: after deriving %s from Search(%s), the base search is no longer in index order", what, l.Conn, first)
					}
				}
			}
			e.flag("base-search-recollected-after-derivation")
		}
	}
	// order: the key sequence must be the first wantN keys of the sorted match set
	if p, ok := e.m.orderedLast(*q); ok {
		ks := e.m.sortedKeys(set, p, q.Reverse)
		for i, o := range objs {
			got := normLeaf(o.(*Doc), p)
			if got.cmp(ks[i]) != 0 {
				e.failf("%s: query %s: result %d has key %s, the %s order requires %s", what, q, i, keyString(got), map[bool]string{false: "non-increasing", true: "non-decreasing"}[q.Reverse], keyString(ks[i]))
			}
		}
		if len(ks) > 1 && ks[0].cmp(ks[len(ks)-1]) != 0 {
			e.flag("query-ordered-distinct-keys")
			for i := 1; i < len(ks); i++ {
				if ks[i].cmp(ks[i-1]) == 0 {
					e.flag("query-ordered-with-ties")
					if q.Limit != nil && *q.Limit > 0 && *q.Limit < uint64(len(set)) {
						e.flag("query-ordered-ties-limit-cuts")
					}
					break
				}
			}
		}
	}
}

// reopen closes (or abandons) the handle, opens a new one and, if requested,
// compares complete observations across the boundary.
func (e *Env) reopen(what string, abandon bool) {
	qs := e.sweepQueries()
	var before Obs
	if e.opts.DiffReopen {
		before = e.Observe(e.db, qs)
	}
	if abandon {
		e.abandoned = append(e.abandoned, e.db)
		e.flag("abandon-reopen")
	} else {
		if err := e.db.Close(); err != nil {
			e.failf("%s: Close: %v", what, err)
		}
		e.flag("reopen")
	}
	e.dirty = false
	e.reopened = true
	for _, p := range e.cfg.IndexedPaths() {
		for _, d := range e.m.objs {
			n := normLeaf(d, p)
			if p.Time && n.i != (Doc{}).T.UnixNano() {
				e.flag("reopen-with-indexed-timestamp")
			}
			if (n.cls == ClsInt && !p.Time && (n.i > 1<<53 || n.i < -(1<<53))) || (n.cls == ClsUint && n.u > 1<<53) {
				e.flag("reopen-with-indexed-int-beyond-2^53")
			}
		}
	}
	e.db = sod.Open(e.root)
	if e.afterOpen != nil {
		e.afterOpen()
	}
	if e.opts.DiffReopen {
		// Control only looks at loaded schemas: load first
		e.db.Count(&Doc{})
		after := e.Observe(e.db, qs)
		// integrity is not comparable while writes were pending on the old handle
		if c, ok := after["control"]; ok && c != OK {
			e.failf("%s: Control on the new handle: %s", what, c)
		}
		delete(after, "control")
		delete(before, "control")
		for _, m := range []Obs{after, before} {
			for k := range m {
				if strings.HasPrefix(k, "qseq:") {
					if _, ordered := m["qord:"+strings.TrimPrefix(k, "qseq:")]; !ordered {
						delete(m, k) // scan / Or order is unspecified
					}
				}
			}
		}
		if d := diffObs(after, before); len(d) > 0 {
			if len(d) > 6 {
				d = d[:6]
			}
			e.failf("%s: new handle observes something else than the old one (got=new, want=old):\n%s", what, strings.Join(d, "\n"))
		}
	}
}

// Run executes a whole program with a check after every op (or as configured).
func (e *Env) Run() {
	for i := range e.prog.Ops {
		op := &e.prog.Ops[i]
		if e.opts.BeforeOp != nil {
			e.opts.BeforeOp(e, i, op)
		}
		applied := e.Exec(i, op)
		if e.opts.AfterOp != nil {
			e.opts.AfterOp(e, i, op)
		}
		if !applied {
			e.flag("op-skipped")
			continue
		}
		if e.reopened && op.Op != "reopen" && op.Op != "abandonReopen" {
			e.flag("op-after-reopen")
		}
		if e.opts.NoObs {
			continue
		}
		if e.opts.SweepEveryOp || op.Op == "reopen" || op.Op == "abandonReopen" {
			e.Check(fmt.Sprintf("after op %d (%s)", i, op.Op))
		} else {
			e.lightCheck(fmt.Sprintf("after op %d (%s)", i, op.Op))
		}
	}
	if !e.opts.NoObs {
		e.Check("end of program")
	}
}

// EnvFromDir opens an existing database directory (already copied to a
// private root) whose expected contents are given by model.
func EnvFromDir(t TB, prog *Program, opts RunOpts, root string, m *Model, order []string) *Env {
	e := &Env{t: t, prog: prog, cfg: prog.Cfg, opts: opts, ord: map[string]int{}, flags: map[string]int{}}
	e.root = root
	e.m = m
	for _, id := range order {
		e.note(id)
	}
	sod.LowercaseNames = e.cfg.Lower
	e.db = sod.Open(e.root)
	for i := 0; i < 2; i++ {
		e.absent = append(e.absent, seedUUID(0xabcdef0000000000+uint64(i)))
	}
	return e
}

// lightCheck: object-level read paths only (no searches).
func (e *Env) lightCheck(where string) {
	lvl := e.opts.SweepLevel
	e.opts.SweepLevel = 0
	defer func() { e.opts.SweepLevel = lvl }()
	got := e.Observe(e.db, nil)
	want := e.Expect(nil)
	if d := diffObs(got, want); len(d) > 0 {
		if len(d) > 6 {
			d = d[:6]
		}
		e.failf("%s: observation differs from model:\n%s", where, strings.Join(d, "\n"))
	}
	if e.opts.Walk && !e.dirty && e.cfg.Async == nil {
		e.walkCheck(where)
	}
}

// ---------------------------------------------------------------- helpers

func validUTF8(s string) bool {
	for _, r := range s {
		if r == '�' {
			return false
		}
	}
	return json.Valid([]byte(`"`+"x"+`"`)) && strings.ToValidUTF8(s, "") == s
}

func nextAfter(f float64, dir int) float64 {
	return reflectNextAfter(f, dir)
}

var _ = reflect.TypeOf

// execSnapshot (C20): evaluate a search, perform writes, then consume it.
func (e *Env) execSnapshot(what string, op *Op) {
	q := *op.Q
	matched, cls := e.m.Eval(q)
	s := e.runQuery(e.db, q)
	if cls != OK || s.Err() != nil {
		if cls == OK {
			e.failf("%s: query %s failed: %v", what, q, s.Err())
		}
		return
	}
	M := map[string]bool{}
	for id := range matched {
		M[id] = true
	}
	before := map[string]bool{}
	for id := range e.m.objs {
		before[id] = true
	}
	deleted := map[string]bool{}
	// a refinement derived before the writes is itself a snapshot (of M ∪ / ∩ its leaf)
	var t1 *sod.Search
	var E1 map[string]bool
	if dl, ok := op.Aux["derive"]; ok && dl != nil {
		var l Leaf
		reJSON(dl, &l)
		if ls, lc := e.m.evalLeaf(l); lc == OK {
			v := l.V.Iface(docPathIndex[l.Path])
			E1 = map[string]bool{}
			if l.Conn == "or" {
				t1 = s.Or(l.Path, l.Op, v)
				for id := range M {
					E1[id] = true
				}
				for id := range ls {
					E1[id] = true
				}
			} else {
				t1 = s.And(l.Path, l.Op, v)
				for id := range M {
					if ls[id] {
						E1[id] = true
					}
				}
			}
			if t1.Err() != nil {
				t1 = nil
			}
		}
	}
	keyP := docPathIndex[q.Leaves[len(q.Leaves)-1].Path]
	lo, hi := norm{}, norm{}
	first := true
	for id := range M {
		k := normLeaf(e.m.objs[id], keyP)
		if first || k.cmp(lo) < 0 {
			lo = k
		}
		if first || k.cmp(hi) > 0 {
			hi = k
		}
		first = false
	}
	for i := range op.Sub {
		sub := &op.Sub[i]
		// where does the write land relative to the result range? (evidence)
		switch sub.Op {
		case "insert", "update":
			var d *Doc
			if sub.Op == "insert" {
				d = sub.D
			} else if id, ok := e.liveRef(sub.Ref); ok {
				d = cloneDoc(e.m.objs[id])
				applySets(d, sub.Sets)
			}
			if d != nil && !first {
				k := normLeaf(d, keyP)
				if k.cmp(lo) >= 0 && k.cmp(hi) <= 0 {
					e.flag("snapshot-write-inside-range")
				} else {
					e.flag("snapshot-write-outside-range")
				}
			}
		}
		prev := map[string]bool{}
		for id := range e.m.objs {
			prev[id] = true
		}
		e.holdingSearch = true // (no restart while a search value is outstanding)
		e.Exec(e.step, sub)
		e.holdingSearch = false
		for id := range prev {
			if _, still := e.m.objs[id]; !still {
				deleted[id] = true
			}
		}
	}
	D := map[string]bool{}
	for id := range deleted {
		if M[id] {
			D[id] = true
		}
	}
	if len(op.Sub) > 0 {
		e.flag("snapshot-with-writes")
	}
	if len(D) > 0 {
		e.flag("snapshot-member-deleted")
	}
	if s.Len() != len(M) {
		e.failf("%s: Len() of the outstanding search %s changed from %d to %d after later writes", what, q, len(M), s.Len())
	}
	// refinements derived AFTER the writes still work on the snapshot: And narrows M, Or adds
	// what matches now; neither may disturb the parent or a sibling derived earlier
	if dl, ok := op.Aux["derive2"]; ok && dl != nil {
		var l Leaf
		reJSON(dl, &l)
		if ls, lc := e.m.evalLeaf(l); lc == OK {
			v := l.V.Iface(docPathIndex[l.Path])
			var t2 *sod.Search
			allowed := map[string]bool{}
			if l.Conn == "or" {
				t2 = s.Or(l.Path, l.Op, v)
				for id := range M {
					allowed[id] = true
				}
				for id := range ls {
					allowed[id] = true
				}
			} else {
				t2 = s.And(l.Path, l.Op, v)
				for id := range M {
					allowed[id] = true
				}
			}
			if t2.Err() == nil {
				if objs2, err2 := t2.Collect(); err2 == nil {
					got2 := map[string]bool{}
					for _, o := range objs2 {
						if got2[o.UUID()] {
							e.failf("%s: %s derived from the outstanding search %s after the writes returned %s twice", what, l.Conn, q, e.tag(o.UUID()))
						}
						if !allowed[o.UUID()] {
							e.failf("%s: %s derived from the outstanding search %s after the writes returned %s, which is outside the snapshot", what, l.Conn, q, e.docLine(o))
						}
						got2[o.UUID()] = true
					}
					if l.Conn != "or" {
						// And narrows the snapshot to the members that satisfy the new term NOW (when a
						// member was deleted in the meantime a scan may stop at it: then only soundness)
						for id := range M {
							if _, live := e.m.objs[id]; !live {
								continue
							}
							if ls[id] != got2[id] && (got2[id] || len(D) == 0) {
								e.failf("%s: And(%s %s %s) derived from the outstanding search %s after the writes: member %s (current value %s) is %s the result, the term evaluated on current values says %v", what, l.Path, l.Op, l.V, q, e.tag(id), canon(e.m.objs[id]), map[bool]string{true: "in", false: "missing from"}[got2[id]], ls[id])
							}
						}
					}
					e.flag("snapshot-derived-after-writes")
				}
			}
		}
	}
	if t1 != nil {
		objs1, err1 := t1.Collect()
		anyDeleted := false
		for id := range E1 {
			if deleted[id] {
				anyDeleted = true
			}
		}
		if err1 != nil && !anyDeleted {
			e.failf("%s: collecting a refinement derived from %s before the writes failed (%v) although none of its members was deleted", what, q, err1)
		}
		if err1 == nil {
			seen1 := map[string]bool{}
			for _, o := range objs1 {
				if !E1[o.UUID()] {
					e.failf("%s: a refinement derived from %s before the writes (and before a sibling was derived) returned %s, which it did not denote", what, q, e.docLine(o))
				}
				seen1[o.UUID()] = true
			}
			for id := range E1 {
				if !deleted[id] && !seen1[id] {
					e.failf("%s: a refinement derived from %s before the writes lost %s", what, q, e.tag(id))
				}
			}
			e.flag("snapshot-sibling-derivation")
		}
	}
	var objs []sod.Object
	var err error
	if q.Consumer == "delete" {
		// deleting through the outstanding search removes the members that are still stored -
		// all of them, also when some were deleted in the meantime - and nothing else
		derr := s.Delete()
		if derr != nil && len(D) == 0 {
			e.failf("%s: Delete through the outstanding search %s failed although none of its members was deleted in the meantime: %v", what, q, derr)
		}
		for _, id := range sortedIDs(M) {
			if _, live := e.m.objs[id]; !live {
				continue
			}
			gone := true
			if deleted[id] || derr != nil {
				// deleted in the meantime and stored again under the same uuid: another object as far
				// as the search is concerned (omitted or reported); after an error nothing is promised
				// about the remaining members: follow the database
				probe := &Doc{}
				probe.Initialize(id)
				if ok, _ := e.db.Exist(probe); ok {
					gone = false
				}
			}
			if gone {
				e.trackDelete(id)
				e.m.Delete(id)
				e.flag("delete")
			}
		}
		e.flag("snapshot-consumed-by-delete")
		return
	}
	switch q.Consumer {
	case "assign":
		var docs []*Doc
		if err = s.Assign(&docs); err == nil {
			for _, d := range docs {
				objs = append(objs, d)
			}
		}
	default:
		objs, err = s.Collect()
	}
	if err != nil {
		if len(D) == 0 {
			e.failf("%s: collecting the outstanding search %s failed (%v) although no member was deleted", what, q, err)
		}
		return
	}
	seen := map[string]bool{}
	for _, o := range objs {
		id := o.(*Doc).UUID()
		if !M[id] {
			e.failf("%s: outstanding search %s returned %s, which did not match when the search was evaluated (matches then: %d)", what, q, e.docLine(o), len(M))
		}
		if seen[id] {
			e.failf("%s: outstanding search %s returned %s twice", what, q, e.tag(id))
		}
		seen[id] = true
		// the search fixes WHICH objects it denotes; their contents are read when collected
		if cur, live := e.m.objs[id]; live && canon(o) != canon(cur) {
			e.failf("%s: outstanding search %s returned %s as %s; the stored value is %s (it was written after the search was evaluated)", what, q, e.tag(id), canon(o), canon(cur))
		}
	}
	// collecting the same search value again gives the same answer in fresh memory
	if len(D) == 0 && q.Consumer != "assign" {
		again, err2 := s.Collect()
		if err2 != nil || len(again) != len(objs) {
			e.failf("%s: collecting the outstanding search %s a second time returned %d objects (err=%v), the first time %d", what, q, len(again), err2, len(objs))
		}
		for i := range again {
			if again[i] == objs[i] {
				e.failf("%s: collecting the outstanding search %s twice returned the very same object (pointer) for %s", what, q, e.tag(again[i].UUID()))
			}
		}
	}
	for id := range M {
		if !D[id] && !seen[id] {
			e.failf("%s: outstanding search %s lost %s, which matched at evaluation time and was not deleted since", what, q, e.tag(id))
		}
	}
}

// poison puts NaN / +Inf / -Inf into a float field of d.
func poison(d *Doc, aux map[string]interface{}) {
	v := math.NaN()
	switch aux["val"] {
	case "badtime": // encoding/json refuses years outside [0,9999]
		d.In.T = time.Date(20000, 1, 1, 0, 0, 0, 0, time.UTC)
		return
	case "chan":
		d.Any = map[string]interface{}{"c": make(chan int)}
		return
	case "func":
		d.Any = []interface{}{func() {}}
		return
	case "hooknan": // serialisable as passed, not after its own Transform
		d.H = Hooks{Append: hookNaN}
		return
	}
	switch aux["val"] {
	case "inf":
		v = math.Inf(1)
	case "-inf":
		v = math.Inf(-1)
	}
	path, _ := aux["path"].(string)
	p, ok := docPathIndex[path]
	if !ok || p.Class != ClsFloat {
		p = docPathIndex["F64"]
	}
	lv := leafForSet(d, p.Path)
	lv.SetFloat(v)
}

func sortedIDs(m map[string]bool) []string {
	out := make([]string, 0, len(m))
	for id := range m {
		out = append(out, id)
	}
	sort.Strings(out)
	return out
}
