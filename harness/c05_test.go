package props

import (
	"fmt"
	"os"
	"path/filepath"
	"strings"
	"testing"
	"time"

	"github.com/0xrawsec/sod"
	"github.com/0xrawsec/sod/vshim"
	"pgregory.net/rapid"
)

// ---------------------------------------------------------------- C05: crash points

func knownActive(key string) bool {
	for _, k := range strings.Split(os.Getenv("VERIF_KNOWN"), ",") {
		if k == key {
			return true
		}
	}
	return false
}

func instrumented() bool { return os.Getenv("VERIF_VARIANT") == "inst" }

const guardReal = 3 * time.Second

// tick advances the virtual clock in flusher steps.
func tick(ms int) bool {
	ok := true
	for ms > 0 {
		if !vshim.Advance(100*time.Millisecond, guardReal) {
			ok = false
		}
		ms -= 100
	}
	return ok
}

type crashRun struct {
	e      *Env
	log    []vshim.Rec
	models []*Model // models[i] = state after op i
	// versions[i][uuid] = every value op i wrote for that uuid (batches may write one uuid several times)
	versions []map[string][]string
	opOf     func(tag string) int
}

func opIndex(tag string) int {
	var i int
	if _, err := fmt.Sscanf(tag, "op %d", &i); err != nil {
		return -1
	}
	return i
}

// recordHistory runs the program with every fs mutation recorded.
func recordHistory(t TB, prog *Program) *crashRun {
	cr := &crashRun{}
	vshim.ResetClock()
	if prog.Cfg.Async != nil {
		vshim.SetClock(vshim.ClockVirtual, 1)
	} else {
		vshim.SetClock(vshim.ClockReal, 1)
	}
	opts := RunOpts{SweepLevel: 0, NoObs: true,
		PreOpen: func(root string) {
			vshim.Register(root, vshim.ModeRecord)
			vshim.SetTag(root, "op -1")
		},
		BeforeOp: func(e *Env, i int, op *Op) { vshim.SetTag(e.root, fmt.Sprintf("op %d", i)) },
		AfterOp: func(e *Env, i int, op *Op) {
			if op.Op == "tick" {
				tick(op.Ms)
			}
			vshim.WaitParked(guardReal)
			cr.models = append(cr.models, e.m.Clone())
			if op.Op == "many" {
				cr.versions = append(cr.versions, e.lastVersions)
			} else {
				cr.versions = append(cr.versions, nil)
			}
			e.lastVersions = nil
		},
	}
	e := NewEnv(t, prog, opts)
	cr.e = e
	e.Run()
	vshim.SetTag(e.root, fmt.Sprintf("op %d", len(prog.Ops)))
	if err := e.db.Close(); err != nil {
		e.failf("Close: %v", err)
	}
	e.db = nil
	vshim.ReleaseAll()
	cr.models = append(cr.models, e.m.Clone()) // Close is op len(prog.Ops)
	cr.log = vshim.Log(e.root)
	vshim.Unregister(e.root)
	vshim.SetClock(vshim.ClockReal, 1)
	return cr
}

func (cr *crashRun) modelAt(i int) *Model {
	if i < 0 {
		return NewModel(cr.e.cfg)
	}
	if i >= len(cr.models) {
		i = len(cr.models) - 1
	}
	return cr.models[i]
}

// checkCut materialises log[:k] (last write torn at `torn` bytes when >= 0)
// and checks what a restarting application observes.
func (cr *crashRun) checkCut(k, torn int, st *Stats) (excluded bool) {
	e := cr.e
	dst := newRoot()
	defer os.RemoveAll(dst)
	if err := vshim.Materialise(dst, cr.log, k, torn); err != nil {
		e.failf("harness: %v", err)
	}
	where := fmt.Sprintf("crash after fs mutation %d/%d", k, len(cr.log))
	if torn >= 0 {
		where += fmt.Sprintf(" (last write torn at byte %d)", torn)
	}
	// which op was in flight?
	j := -1
	inside := false
	if k > 0 {
		j = opIndex(cr.log[k-1].Tag)
		inside = torn >= 0 || (k < len(cr.log) && cr.log[k].Tag == cr.log[k-1].Tag)
		where += fmt.Sprintf(" during %s [%s %s]", cr.log[k-1].Tag, cr.log[k-1].Kind, cr.log[k-1].Path)
	}
	before, after := cr.modelAt(j-1), cr.modelAt(j)
	if !inside {
		before = after
	}
	// a restarting application: Open, Create, use
	sod.LowercaseNames = e.cfg.Lower
	db := sod.Open(dst)
	defer db.Close()
	w := WalkDir(strings.Replace(e.collDir(), e.root, dst, 1))
	// the first call that touches the collection is the one that gets the corruption report:
	// mostly Create, but applications also start with a read
	var first error
	touch := "Create"
	if w.Schema != nil && w.SchemaErr == "" {
		switch (k*7 + torn + 12) % 5 {
		case 2:
			touch = "Count"
			_, first = db.Count(&Doc{})
		case 3:
			for _, id := range e.allIDs {
				if _, ok := w.Objects[id]; ok {
					touch = "GetByUUID"
					_, first = db.GetByUUID(&Doc{}, id)
					break
				}
			}
		case 4:
			touch = "Search"
			ip := e.cfg.IndexedPaths()[0]
			first = db.Search(&Doc{}, ip.Path, "!=", valOfNorm(norm{cls: ip.Class}, ip).Iface(ip)).Err()
		}
	}
	if touch != "Create" {
		if first != nil && !sod.IsIndexCorrupted(first) {
			e.failf("%s: the first call after reopening (%s) fails with %v, which is neither success nor index corruption", where, touch, first)
		}
		st.Add("cuts_first_touched_by_a_read", 1)
	}
	if err := db.Create(&Doc{}, e.cfg.Schema()); err != nil {
		if !sod.IsIndexCorrupted(err) {
			e.failf("%s: reopening (Create) fails with %v, which is neither success nor index corruption", where, err)
		}
		first = err
	}
	fileModel := NewModel(e.cfg)
	var order []string
	for _, id := range e.allIDs {
		if wf, ok := w.Objects[id]; ok {
			d, err := wf.Doc()
			if err != nil {
				e.failf("%s: object file %s is left unreadable: %v", where, wf.Name, err)
			}
			fileModel.objs[id] = d
			fileModel.live = append(fileModel.live, id)
			order = append(order, id)
		}
	}
	for id, wf := range w.Objects {
		if _, ok := e.ord[id]; !ok {
			e.failf("%s: unexpected object file %s", where, wf.Name)
		}
	}
	// (the in-flight call replaced the file of an object that existed when it started)
	updated := false
	existing, atStart := map[string]bool{}, map[string]bool{}
	started := false
	for i := 0; i < k; i++ {
		rec := cr.log[i]
		if !started && rec.Tag == cr.log[k-1].Tag {
			started = true
			for p := range existing {
				atStart[p] = true
			}
		}
		target := ""
		switch rec.Kind {
		case "rename":
			target = rec.To
		case "open":
			target = rec.Path
		case "remove":
			delete(existing, rec.Path)
		}
		// (temporary files are dot-prefixed AND end in .tmp; an object file may end in .tmp by its extension)
		isTemp := strings.HasSuffix(target, ".tmp") && strings.HasPrefix(filepath.Base(target), ".")
		if target != "" && !strings.HasSuffix(target, "schema.json") && !isTemp {
			if started && atStart[target] {
				updated = true
			}
			existing[target] = true
		}
	}
	if sod.IsIndexCorrupted(first) {
		st.Add("cuts_detected_as_corrupted", 1)
		if err := db.Repair(&Doc{}); err != nil {
			// the stale entries of the two known findings can also make Repair refuse a
			// new file for uniqueness; nothing else is tolerated
			if sod.IsUnique(err) && knownActive("stale-index-update-window") && inside && updated {
				st.Exclude("stale-index-update-window")
				return true
			}
			if sod.IsUnique(err) && knownActive("async-index-committed-before-objects") && e.cfg.Async != nil {
				st.Exclude("async-index-committed-before-objects")
				return true
			}
			e.failf("%s: corruption was reported, but Repair fails: %v", where, err)
		}
		if err := db.Control(); err != nil {
			e.failf("%s: after Repair, Control returns %v", where, err)
		}
	} else {
		st.Add("cuts_loaded_clean", 1)
	}
	// index and files must agree on every read path
	p2 := *e.prog
	e2 := &Env{t: e.t, prog: &p2, cfg: e.cfg, opts: RunOpts{SweepLevel: 1, Control: true}, ord: e.ord, nextOrd: e.nextOrd, allIDs: e.allIDs, absent: e.absent, flags: map[string]int{}}
	e2.root, e2.db, e2.m = dst, db, fileModel
	if d := e2.Diff(); len(d) > 0 {
		onlyIndex := true
		for _, line := range d {
			if !(strings.HasPrefix(line, "[q:") || strings.HasPrefix(line, "[qord:") || strings.HasPrefix(line, "[index:")) {
				onlyIndex = false
			}
		}
		// known finding: an update of an existing object rewrites its file before the
		// schema is committed; a crash in between leaves a stale index entry unnoticed
		if knownActive("stale-index-update-window") && inside && onlyIndex && updated {
			st.Exclude("stale-index-update-window")
			return true
		}
		// known finding: with async writes, calls that commit the schema (Delete, DeleteAll,
		// search-delete, Commit, Create) persist the in-memory index while updates of
		// stored objects are still pending: the committed index is ahead of the files
		if knownActive("async-index-committed-before-objects") && e.cfg.Async != nil && onlyIndex {
			st.Exclude("async-index-committed-before-objects")
			return true
		}
		if len(d) > 5 {
			d = d[:5]
		}
		what := "index and files disagree although no corruption was reported"
		if first != nil {
			what = "after Repair, reads and searches do not reflect file contents"
		}
		e.failf("%s: %s (model = decoded files):\n%s", where, what, strings.Join(d, "\n"))
	}
	// leftovers of the interrupted call (temporary files) must stay harmless for what the
	// application does next: every object is written again with a much shorter value, read
	// back, and decoded from disk by the walker
	leftovers := 0
	for _, name := range w.Others {
		if strings.HasPrefix(name, ".") {
			leftovers++
		}
	}
	if leftovers > 0 && e.cfg.Async == nil {
		st.Add("cuts_with_leftover_temp_files", 1)
		k := 0
		for _, id := range e.allIDs {
			k++
			small := &Doc{}
			for _, p := range e.cfg.UniquePaths() {
				// distinct values on unique paths
				setLeaf(small, p, valOfNorm(norm{cls: p.Class, i: int64(100 + k), u: uint64(100 + k), f: float64(100 + k), s: fmt.Sprint("u", k)}, p))
			}
			small.Initialize(id)
			if err := db.InsertOrUpdate(small); err != nil {
				if sod.IsUnique(err) {
					continue
				}
				e.failf("%s: after the restart, writing object %s again fails: %v", where, e.tag(id), err)
			}
			got, err := db.GetByUUID(&Doc{}, id)
			if err != nil {
				e.failf("%s: after the restart, object %s was written again but cannot be read: %v", where, e.tag(id), err)
			}
			w2 := WalkDir(strings.Replace(e.collDir(), e.root, dst, 1))
			wf, ok := w2.Objects[id]
			if !ok {
				e.failf("%s: after the restart, object %s was written again but has no file", where, e.tag(id))
			}
			if d2, derr := wf.Doc(); derr != nil || canon(d2) != canon(got) {
				e.failf("%s: after the restart, object %s was written again; its file decodes to %v (err=%v), the handle reads %s", where, e.tag(id), d2 != nil, derr, canon(got))
			}
		}
	}
	// synchronous mode: acknowledged ops are reflected; the interrupted op is
	// applied to each object entirely or not at all
	if e.cfg.Async == nil {
		ids := map[string]bool{}
		for id := range before.objs {
			ids[id] = true
		}
		for id := range after.objs {
			ids[id] = true
		}
		for id := range fileModel.objs {
			ids[id] = true
		}
		for id := range ids {
			f, fok := fileModel.objs[id]
			b, bok := before.objs[id]
			a, aok := after.objs[id]
			isB := fok == bok && (!fok || canon(f) == canon(b))
			isA := fok == aok && (!fok || canon(f) == canon(a))
			if !isB && !isA && fok && inside && j >= 0 && j < len(cr.versions) {
				// a batch may write several members with one uuid: each is a complete object
				for _, v := range cr.versions[j][id] {
					if v == canon(f) {
						isA = true
					}
				}
			}
			if !isB && !isA {
				fv, bv, av := "absent", "absent", "absent"
				if fok {
					fv = canon(f)
				}
				if bok {
					bv = canon(b)
				}
				if aok {
					av = canon(a)
				}
				e.failf("%s: object %s on disk is %s; before the interrupted call it was %s, after it %s", where, e.tag(id), fv, bv, av)
			}
		}
	}
	return false
}

func c05Profile() *Profile {
	return &Profile{
		Property: "C05", MaxOps: pick(6, 10),
		// no InsertOrUpdateBulk: it is a sequence of InsertOrUpdateMany calls (covered), and
		// the before/after states of the oracle are per API call
		W:          map[string]int{"insert": 8, "update": 6, "delete": 3, "many": 3, "searchDelete": 1, "deleteAll": 1, "resurrect": 1, "tick": 3},
		AllowCache: true, AllowCompress: true, AllowAsync: true, AllowLower: true,
		MinIndexed: 1, MaxIndexed: 3, MaxUnique: 1, CasePaths: 0,
		TinyBias: 60, BigBias: 10, HookBias: 12, RichShape: 5, MaxLeaves: 1, NoCopyItems: true,
	}
}

func TestC05(t *testing.T) {
	if !instrumented() {
		t.Skip("needs the instrumented build")
	}
	st := statsFor("C05")
	st.Rule = "a generated history (inserts, key-moving updates, deletes, batches, search-delete, DeleteAll, virtual-clock ticks that let the async flusher run, final Close) runs on a copy of the working tree whose os/ioutil calls are recorded per database root; the recorded log of file-system mutations (mkdir, open/create/truncate, every Write with its bytes, close, remove, rename) is cut at EVERY mutation boundary (exhaustive per history) and every Write is additionally torn at byte 1, the middle and the last byte; each prefix is materialised into a fresh directory and opened the way a restarting application does (Open, then a first call that is Create in 3 of 5 states and Count, GetByUUID or a search otherwise, then Create, then use); objects may carry value-changing Transform hooks (Repair must index what the files hold). Oracle per crash state: reopening reports nil or ErrIndexCorrupted, nothing else; every object file decodes (independent walker); if corruption is reported Repair and then Control succeed; then every read path and a search sweep over the indexed paths equal predicates on the decoded files; when the crash left temporary files behind every object is then written again with a short value, read back and decoded from disk (leftovers must stay harmless); in synchronous mode every object on disk equals its value before or after the interrupted call (equal to the acknowledged state when the cut is at a call boundary). Evaluations = crash states. Non-trivial: the cut lies strictly inside an API call. Distinct by (program hash, cut, torn offset)."
	st.Assumptions = append(baseAssumptions(), "process-crash model: completed system calls persist in order; torn writes only inside one Write; no reordering, no loss of directory entries (the code never syncs)", "the restarting application calls Create with the same schema before using the collection")
	prof := c05Profile()
	rapid.Check(t, func(rt *rapid.T) {
		prog := NewG(rt, prof).Program()
		guard(rt, prog, func() { caseC05(rt, prog) })
	})
}

func caseC05(t TB, prog *Program) {
	st := statsFor("C05")
	cr := recordHistory(t, prog)
	defer cr.e.Teardown()
	h := prog.Hash()
	one := -1
	oneTorn := -1
	if v, ok := prog.Aux["cut"]; ok { // replay of one crash state
		one = int(v.(float64))
		if tv, ok := prog.Aux["torn"]; ok {
			oneTorn = int(tv.(float64))
		}
	}
	try := func(k, torn int) {
		if one >= 0 && (k != one || torn != oneTorn) {
			return
		}
		// failures name the crash state so that the replay is exact
		prog.Aux = map[string]interface{}{"cut": k, "torn": torn}
		excluded := cr.checkCut(k, torn, st)
		delete(prog.Aux, "cut")
		delete(prog.Aux, "torn")
		inside := torn >= 0 || (k > 0 && k < len(cr.log) && cr.log[k].Tag == cr.log[k-1].Tag)
		flags := map[string]int{}
		if inside {
			flags["cut-inside-call"] = 1
		} else {
			flags["cut-at-call-boundary"] = 1
		}
		if torn >= 0 {
			flags["torn-write"] = 1
		}
		if k > 0 {
			flags["cut-after-"+cr.log[k-1].Kind] = 1
		}
		if excluded {
			flags["excluded-known-finding"] = 1
		}
		if cr.e.cfg.Async != nil {
			flags["cfg-async"] = 1
		}
		if cr.e.cfg.Compress {
			flags["cfg-compress"] = 1
		}
		st.Case(h^uint64(k*2654435761)^uint64((torn+2)*40503), inside, flags, func() interface{} {
			return map[string]interface{}{"program": prog, "cut": k, "torn": torn, "log_len": len(cr.log)}
		})
	}
	prevAux := prog.Aux
	prog.Aux = map[string]interface{}{}
	for k := 0; k <= len(cr.log); k++ {
		try(k, -1)
		if k > 0 && cr.log[k-1].Kind == "write" {
			n := len(cr.log[k-1].Data)
			seen := map[int]bool{}
			for _, off := range []int{1, n / 2, n - 1} {
				if off > 0 && off < n && !seen[off] {
					seen[off] = true
					try(k, off)
				}
			}
		}
	}
	prog.Aux = prevAux
	st.Add("histories", 1)
	st.Add("fs_mutations_recorded", len(cr.log))
}

func init() {
	replayers["C05"] = func(t *testing.T, prog *Program) { guardT(t, prog, func() { caseC05(t, prog) }) }
}
