package props

import (
	"testing"

	"pgregory.net/rapid"
)

// TestC02Direct hammers the bisection / range arithmetic of one index with
// bigger collections (up to 200 objects, tie heavy or all distinct) than the
// history-based check affords: one bulk insert, some key-moving updates and
// deletes, then many single-leaf queries with probes inside, between and
// outside the stored keys.  Same oracle (model predicate, multiset equality).
func TestC02Direct(t *testing.T) {
	st := statsFor("C02")
	paths := []string{"I64", "S", "U8", "F64", "T"}
	opts := RunOpts{SweepLevel: 0, Control: true}
	rapid.Check(t, func(rt *rapid.T) {
		prof := &Profile{Property: "C02", TinyBias: 50, BigBias: 10, MaxLeaves: 1}
		g := NewG(rt, prof)
		if g.pct("alltiny") < 40 {
			prof.TinyBias = 95 // all-equal / few distinct keys
		}
		cfg := Config{Ext: ".json", Cache: true, Cons: map[string]Cons{}}
		for _, p := range paths {
			cfg.Cons[p] = Cons{Index: true}
		}
		g.cfg = cfg
		prog := &Program{Property: "C02", Cfg: cfg, Aux: map[string]interface{}{"direct": true}}
		n := g.uni(pick(120, 200), "n")
		var items []BatchItem
		for i := 0; i < n; i++ {
			d := &Doc{}
			for _, p := range paths {
				setLeaf(d, docPathIndex[p], g.Val(docPathIndex[p]))
			}
			items = append(items, BatchItem{Kind: "new", D: d})
		}
		prog.Ops = append(prog.Ops, Op{Op: "many", Items: items})
		for i, k := 0, g.uni(8, "nmods"); i < k; i++ {
			if g.pct("del") < 40 {
				prog.Ops = append(prog.Ops, Op{Op: "delete", Ref: g.uni(256, "ref")})
			} else {
				p := docPathIndex[pickU(g, paths, "modpath")]
				prog.Ops = append(prog.Ops, Op{Op: "update", Ref: g.uni(256, "ref"), Sets: []FieldSet{{Path: p.Path, V: g.Val(p)}}})
			}
		}
		for i, k := 0, pick(25, 60); i < k; i++ {
			p := docPathIndex[pickU(g, paths, "qpath")]
			op := pickU(g, []string{"=", "!=", "<", "<=", ">", ">="}, "qop")
			prog.Ops = append(prog.Ops, Op{Op: "query", Q: &Query{Leaves: []Leaf{{Path: p.Path, Op: op, V: g.Probe(p)}}, Consumer: "collect"}})
		}
		guard(rt, prog, func() {
			e := NewEnv(rt, prog, opts)
			defer e.Teardown()
			for i := range prog.Ops {
				e.Exec(i, &prog.Ops[i])
			}
			e.lightCheck("end of program")
			e.flag("direct-index-case")
			if n == 0 {
				e.flag("direct-empty-index")
			}
			if n == 1 {
				e.flag("direct-singleton-index")
			}
			st.Case(prog.Hash(), e.flags["query-partial-result"] > 0, e.flags, nil)
			st.Add("direct_queries", len(prog.Ops))
		})
	})
}
