package props

import (
	"crypto/sha256"
	"errors"
	"fmt"
	"os"
	"path/filepath"
	"reflect"
	"sort"
	"strings"
	"testing"
	"time"

	"github.com/0xrawsec/sod"
	"github.com/0xrawsec/sod/vshim"
	"pgregory.net/rapid"
)

// ---------------------------------------------------------------- C17: schema guard

// treeHash: every file below root with its content hash.
func treeHash(root string) map[string]string {
	out := map[string]string{}
	filepath.Walk(root, func(p string, info os.FileInfo, err error) error {
		if err != nil || info.IsDir() {
			return nil
		}
		b, _ := os.ReadFile(p)
		rel, _ := filepath.Rel(root, p)
		out[rel] = fmt.Sprintf("%x", sha256.Sum256(b))
		return nil
	})
	return out
}

func sameTree(a, b map[string]string) string {
	var diff []string
	for k, v := range a {
		if w, ok := b[k]; !ok {
			diff = append(diff, "removed "+k)
		} else if v != w {
			diff = append(diff, "modified "+k)
		}
	}
	for k := range b {
		if _, ok := a[k]; !ok {
			diff = append(diff, "created "+k)
		}
	}
	sort.Strings(diff)
	return strings.Join(diff, ", ")
}

// ---- (i) a family of struct shapes that share one reflect type string
// ("props.Shape": function-local declarations, as the repository's own test does)

type shapeDef struct {
	name string
	zero func() sod.Object
	make func(i int) sod.Object
}

type SubA struct {
	X int
	Y string
}

var shapes = []shapeDef{
	{"base",
		func() sod.Object {
			type Shape struct {
				sod.Item
				A   int `sod:"index"`
				B   string
				Sub SubA
			}
			return &Shape{}
		},
		func(i int) sod.Object {
			type Shape struct {
				sod.Item
				A   int `sod:"index"`
				B   string
				Sub SubA
			}
			return &Shape{A: i, B: fmt.Sprint("b", i), Sub: SubA{X: i, Y: "y"}}
		}},
	{"field-added",
		func() sod.Object {
			type Shape struct {
				sod.Item
				A   int `sod:"index"`
				B   string
				Sub SubA
				C   float64
			}
			return &Shape{}
		},
		func(i int) sod.Object {
			type Shape struct {
				sod.Item
				A   int `sod:"index"`
				B   string
				Sub SubA
				C   float64
			}
			return &Shape{A: i, B: "b", C: 1.5}
		}},
	{"field-removed",
		func() sod.Object {
			type Shape struct {
				sod.Item
				A   int `sod:"index"`
				Sub SubA
			}
			return &Shape{}
		},
		func(i int) sod.Object {
			type Shape struct {
				sod.Item
				A   int `sod:"index"`
				Sub SubA
			}
			return &Shape{A: i}
		}},
	{"field-retyped",
		func() sod.Object {
			type Shape struct {
				sod.Item
				A   int64 `sod:"index"`
				B   string
				Sub SubA
			}
			return &Shape{}
		},
		func(i int) sod.Object {
			type Shape struct {
				sod.Item
				A   int64 `sod:"index"`
				B   string
				Sub SubA
			}
			return &Shape{A: int64(i), B: "b"}
		}},
	{"nested-changed",
		func() sod.Object {
			type SubB struct {
				X int
				Z string
			}
			type Shape struct {
				sod.Item
				A   int `sod:"index"`
				B   string
				Sub SubB
			}
			return &Shape{}
		},
		func(i int) sod.Object {
			type SubB struct {
				X int
				Z string
			}
			type Shape struct {
				sod.Item
				A   int `sod:"index"`
				B   string
				Sub SubB
			}
			return &Shape{A: i, B: "b"}
		}},
	{"field-renamed",
		func() sod.Object {
			type Shape struct {
				sod.Item
				A   int `sod:"index"`
				B2  string
				Sub SubA
			}
			return &Shape{}
		},
		func(i int) sod.Object {
			type Shape struct {
				sod.Item
				A   int `sod:"index"`
				B2  string
				Sub SubA
			}
			return &Shape{A: i, B2: "b"}
		}},
	{"pointer-instead-of-value",
		func() sod.Object {
			type Shape struct {
				sod.Item
				A   int `sod:"index"`
				B   *string
				Sub SubA
			}
			return &Shape{}
		},
		func(i int) sod.Object {
			type Shape struct {
				sod.Item
				A   int `sod:"index"`
				B   *string
				Sub SubA
			}
			return &Shape{A: i}
		}},
	{"tags-only-changed",
		func() sod.Object {
			type Shape struct {
				sod.Item
				A   int
				B   string `sod:"unique"`
				Sub SubA
			}
			return &Shape{}
		},
		func(i int) sod.Object {
			type Shape struct {
				sod.Item
				A   int
				B   string `sod:"unique"`
				Sub SubA
			}
			return &Shape{A: i, B: fmt.Sprint("b", i)}
		}},
	{"no-exported-fields",
		func() sod.Object { type Shape struct{ sod.Item }; return &Shape{} },
		func(i int) sod.Object { type Shape struct{ sod.Item }; return &Shape{} }},
	{"same-shape-redeclared",
		func() sod.Object {
			type Shape struct {
				sod.Item
				A   int `sod:"index"`
				B   string
				Sub SubA
			}
			return &Shape{}
		},
		func(i int) sod.Object {
			type Shape struct {
				sod.Item
				A   int `sod:"index"`
				B   string
				Sub SubA
			}
			return &Shape{A: i, B: fmt.Sprint("b", i)}
		}},
	// several fields of ONE struct type (by pointer, by value, at two levels): each is a field of its own
	{"two-pointers-to-one-type",
		func() sod.Object {
			type Shape struct {
				sod.Item
				A   int `sod:"index"`
				B   string
				Sub SubA
				P1  *SubA
				P2  *SubA
			}
			return &Shape{}
		},
		func(i int) sod.Object {
			type Shape struct {
				sod.Item
				A   int `sod:"index"`
				B   string
				Sub SubA
				P1  *SubA
				P2  *SubA
			}
			return &Shape{A: i, B: fmt.Sprint("b", i), P1: &SubA{X: i}, P2: &SubA{Y: "p2"}}
		}},
	{"second-pointer-removed",
		func() sod.Object {
			type Shape struct {
				sod.Item
				A   int `sod:"index"`
				B   string
				Sub SubA
				P1  *SubA
			}
			return &Shape{}
		},
		func(i int) sod.Object {
			type Shape struct {
				sod.Item
				A   int `sod:"index"`
				B   string
				Sub SubA
				P1  *SubA
			}
			return &Shape{A: i, B: fmt.Sprint("b", i), P1: &SubA{X: i}}
		}},
	{"third-pointer-added",
		func() sod.Object {
			type Shape struct {
				sod.Item
				A   int `sod:"index"`
				B   string
				Sub SubA
				P1  *SubA
				P2  *SubA
				P3  *SubA
			}
			return &Shape{}
		},
		func(i int) sod.Object {
			type Shape struct {
				sod.Item
				A   int `sod:"index"`
				B   string
				Sub SubA
				P1  *SubA
				P2  *SubA
				P3  *SubA
			}
			return &Shape{A: i, B: fmt.Sprint("b", i), P3: &SubA{X: 3}}
		}},
	{"second-value-of-one-type",
		func() sod.Object {
			type Shape struct {
				sod.Item
				A    int `sod:"index"`
				B    string
				Sub  SubA
				Sub2 SubA
			}
			return &Shape{}
		},
		func(i int) sod.Object {
			type Shape struct {
				sod.Item
				A    int `sod:"index"`
				B    string
				Sub  SubA
				Sub2 SubA
			}
			return &Shape{A: i, B: fmt.Sprint("b", i), Sub2: SubA{X: 2}}
		}},
	{"pointer-to-the-value-type-at-another-level",
		func() sod.Object {
			type Shape struct {
				sod.Item
				A   int `sod:"index"`
				B   string
				Sub SubA
				N   struct{ Q *SubA }
			}
			return &Shape{}
		},
		func(i int) sod.Object {
			type Shape struct {
				sod.Item
				A   int `sod:"index"`
				B   string
				Sub SubA
				N   struct{ Q *SubA }
			}
			return &Shape{A: i, B: fmt.Sprint("b", i)}
		}},
	{"slice-of-struct-instead-of-value",
		func() sod.Object {
			type Shape struct {
				sod.Item
				A   int `sod:"index"`
				B   string
				Sub []SubA
			}
			return &Shape{}
		},
		func(i int) sod.Object {
			type Shape struct {
				sod.Item
				A   int `sod:"index"`
				B   string
				Sub []SubA
			}
			return &Shape{A: i, B: fmt.Sprint("b", i), Sub: []SubA{{X: i}}}
		}},
	{"array-of-struct-instead-of-value",
		func() sod.Object {
			type Shape struct {
				sod.Item
				A   int `sod:"index"`
				B   string
				Sub [2]SubA
			}
			return &Shape{}
		},
		func(i int) sod.Object {
			type Shape struct {
				sod.Item
				A   int `sod:"index"`
				B   string
				Sub [2]SubA
			}
			return &Shape{A: i, B: fmt.Sprint("b", i), Sub: [2]SubA{{X: i}}}
		}},
	{"pointer-to-struct-instead-of-value",
		func() sod.Object {
			type Shape struct {
				sod.Item
				A   int `sod:"index"`
				B   string
				Sub *SubA
			}
			return &Shape{}
		},
		func(i int) sod.Object {
			type Shape struct {
				sod.Item
				A   int `sod:"index"`
				B   string
				Sub *SubA
			}
			return &Shape{A: i, B: fmt.Sprint("b", i), Sub: &SubA{X: i}}
		}},
	{"slice-of-pointers-to-struct-instead-of-value",
		func() sod.Object {
			type Shape struct {
				sod.Item
				A   int `sod:"index"`
				B   string
				Sub []*SubA
			}
			return &Shape{}
		},
		func(i int) sod.Object {
			type Shape struct {
				sod.Item
				A   int `sod:"index"`
				B   string
				Sub []*SubA
			}
			return &Shape{A: i, B: fmt.Sprint("b", i), Sub: []*SubA{{X: i}}}
		}},
}

// own (path,type,tag) walk, independent of sod.FieldDescriptors
func shapeSig(o sod.Object, withTags bool) string {
	var out []string
	var walk func(t reflect.Type, prefix string)
	walk = func(t reflect.Type, prefix string) {
		for i := 0; i < t.NumField(); i++ {
			f := t.Field(i)
			if !f.IsExported() {
				continue
			}
			p := f.Name
			if prefix != "" {
				p = prefix + "." + f.Name
			}
			ft := f.Type
			if ft.Kind() == reflect.Ptr && ft.Elem().Kind() == reflect.Struct {
				walk(ft.Elem(), p)
				continue
			}
			if ft.Kind() == reflect.Struct && ft != reflect.TypeOf(time.Time{}) {
				walk(ft, p)
				continue
			}
			s := p + ":" + ft.String()
			if withTags {
				s += ":" + f.Tag.Get("sod")
			}
			out = append(out, s)
		}
	}
	walk(reflect.TypeOf(o).Elem(), "")
	sort.Strings(out)
	return strings.Join(out, ",")
}

func caseC17Shapes(t TB, prog *Program) {
	st := statsFor("C17")
	wi, ri := int(prog.Aux["writer"].(float64)), int(prog.Aux["reader"].(float64))
	n := int(prog.Aux["objects"].(float64))
	compress, _ := prog.Aux["compress"].(bool)
	cache, _ := prog.Aux["cache"].(bool)
	w, r := shapes[wi], shapes[ri]
	fail := func(format string, a ...interface{}) {
		msg := fmt.Sprintf("stored shape %q, current shape %q: ", w.name, r.name) + fmt.Sprintf(format, a...)
		recordFailure(prog, msg)
		t.Fatalf("%s\nprogram: %s", msg, prog.JSON())
	}
	root := newRoot()
	defer os.RemoveAll(root)
	sod.LowercaseNames = false
	schema := sod.DefaultSchema
	schema.Compress = compress
	schema.Cache = cache
	db := sod.Open(root)
	if err := db.Create(w.zero(), schema); err != nil {
		fail("harness: Create: %v", err)
	}
	var uuids []string
	for i := 0; i < n; i++ {
		o := w.make(i)
		if err := db.InsertOrUpdate(o); err != nil {
			fail("harness: insert: %v", err)
		}
		uuids = append(uuids, o.UUID())
	}
	if err := db.Close(); err != nil {
		fail("harness: Close: %v", err)
	}
	sameShape := shapeSig(w.zero(), false) == shapeSig(r.zero(), false)
	sameTags := shapeSig(w.zero(), true) == shapeSig(r.zero(), true)
	damaged := false
	if dmg, _ := prog.Aux["damage"].(bool); dmg && !sameShape && len(uuids) > 0 {
		// the directory also lost an object file while the program was being changed: the
		// struct no longer matching the stored shape is still what every call must report
		filepath.Walk(root, func(p string, info os.FileInfo, err error) error {
			if err == nil && !info.IsDir() && !damaged && strings.HasPrefix(filepath.Base(p), uuids[len(uuids)-1]) {
				os.Remove(p)
				damaged = true
			}
			return nil
		})
	}
	before := treeHash(root)

	db = sod.Open(root)
	defer db.Close()
	type call struct {
		name string
		f    func() error
	}
	calls := []call{
		{"Count", func() error { _, err := db.Count(r.zero()); return err }},
		{"Create", func() error { return db.Create(r.zero(), schema) }},
		{"All", func() error { _, err := db.All(r.zero()); return err }},
		{"Search", func() error { return db.Search(r.zero(), "A", ">=", 0).Err() }},
		{"Exist", func() error { o := r.zero(); o.Initialize(seedUUID(1)); _, err := db.Exist(o); return err }},
		{"InsertOrUpdate", func() error { return db.InsertOrUpdate(r.make(99)) }},
		{"InsertOrUpdateMany", func() error { _, err := db.InsertOrUpdateMany(r.make(98), r.make(97)); return err }},
		{"DeleteAll", func() error { return db.DeleteAll(r.zero()) }},
		{"Repair", func() error { return db.Repair(r.zero()) }},
		{"Control", func() error { return db.Control() }},
	}
	if len(uuids) > 0 {
		calls = append(calls,
			call{"Get", func() error { o := r.zero(); o.Initialize(uuids[0]); _, err := db.Get(o); return err }},
			call{"Delete", func() error { o := r.zero(); o.Initialize(uuids[0]); return db.Delete(o) }})
	}
	if !sameShape {
		for _, c := range calls {
			err := c.f()
			if c.name == "Control" {
				continue // Control only visits loaded schemas; nothing can be loaded here
			}
			if !errors.Is(err, sod.ErrStructureChanged) {
				fail("%s returned %v, want ErrStructureChanged", c.name, err)
			}
		}
		if d := sameTree(before, treeHash(root)); d != "" {
			fail("refused operations changed the directory: %s", d)
		}
		st.Case(prog.Hash(), n > 0, map[string]int{"shape-changed": 1, "shape-" + r.name: 1}, func() interface{} { return prog })
		return
	}
	// same (path,type) set
	if !sameTags {
		// constraints differ: re-creating is refused, nothing changes
		if err := db.Create(r.zero(), schema); !errors.Is(err, sod.ErrFieldDescModif) {
			fail("Create with different constraints returned %v, want ErrFieldDescModif", err)
		}
		if d := sameTree(before, treeHash(root)); d != "" {
			fail("refused Create changed the directory: %s", d)
		}
		st.Case(prog.Hash(), n > 0, map[string]int{"constraints-changed": 1}, func() interface{} { return prog })
		return
	}
	// compatible: Create is idempotent and preserves data
	for i := 0; i < 2; i++ {
		if err := db.Create(r.zero(), schema); err != nil {
			fail("Create with a compatible schema (attempt %d) returned %v", i+1, err)
		}
	}
	if cnt, err := db.Count(r.zero()); err != nil || cnt != n {
		fail("after a compatible Create: Count=%d err=%v, want %d", cnt, err, n)
	}
	after := treeHash(root)
	for k, v := range before {
		if !strings.HasSuffix(k, "schema.json") && after[k] != v {
			fail("compatible Create modified or removed object file %s", k)
		}
	}
	st.Case(prog.Hash(), n > 0, map[string]int{"compatible-recreate": 1}, func() interface{} { return prog })
}

// ---- (ii) generated edits of the stored descriptor map against the fixed type Doc

func caseC17Descriptors(t TB, prog *Program) {
	st := statsFor("C17")
	e := NewEnv(t, prog, RunOpts{SweepLevel: 0, NoObs: true})
	defer e.Teardown()
	e.Run()
	if err := e.db.Close(); err != nil {
		e.failf("Close: %v", err)
	}
	e.db = nil
	schemaPath := filepath.Join(e.collDir(), "schema.json")
	tree, err := readTree(schemaPath)
	if err != nil {
		e.failf("harness: %v", err)
	}
	fields, _ := tree["fields"].(map[string]interface{})
	names := sortedStrKeys(fields)
	kind, _ := prog.Aux["edit"].(string)
	ref := int(prog.Aux["ref"].(float64))
	name := names[ref%len(names)]
	shapeChange := true
	switch kind {
	case "drop":
		delete(fields, name)
	case "add":
		fields["Bogus.Path"] = map[string]interface{}{"path": "Bogus.Path", "type": "int", "constraints": map[string]interface{}{}}
	case "retype":
		fd := fields[name].(map[string]interface{})
		if fd["type"] == "string" {
			fd["type"] = "int"
		} else {
			fd["type"] = "string"
		}
	case "rename":
		fd := fields[name].(map[string]interface{})
		delete(fields, name)
		fd["path"] = name + "X"
		fields[name+"X"] = fd
	case "reconstrain":
		shapeChange = false
		fd := fields[name].(map[string]interface{})
		cons, _ := fd["constraints"].(map[string]interface{})
		if cons == nil {
			cons = map[string]interface{}{}
		}
		if cons["upper"] == true {
			delete(cons, "upper")
		} else {
			cons["upper"] = true
		}
		fd["constraints"] = cons
	}
	if err := writeTree(schemaPath, tree); err != nil {
		e.failf("harness: %v", err)
	}
	before := treeHash(e.root)
	sod.LowercaseNames = e.cfg.Lower
	db := sod.Open(e.root)
	e.db = db
	if shapeChange {
		check := func(name string, err error) {
			if !errors.Is(err, sod.ErrStructureChanged) {
				e.failf("stored descriptors edited (%s %s): %s returned %v, want ErrStructureChanged", kind, name, name, err)
			}
		}
		_, err := db.Count(&Doc{})
		check("Count", err)
		check("Create", db.Create(&Doc{}, e.cfg.Schema()))
		check("InsertOrUpdate", db.InsertOrUpdate(&Doc{S: "x"}))
		_, err = db.All(&Doc{})
		check("All", err)
		check("Search", db.Search(&Doc{}, "S", "=", "x").Err())
		check("DeleteAll", db.DeleteAll(&Doc{}))
		check("Repair", db.Repair(&Doc{}))
		if d := sameTree(before, treeHash(e.root)); d != "" {
			e.failf("stored descriptors edited (%s %s): refused operations changed the directory: %s", kind, name, d)
		}
		e.flag("descriptor-" + kind)
	} else {
		// only a constraint differs between the stored schema and the one passed to Create
		if err := db.Create(&Doc{}, e.cfg.Schema()); !errors.Is(err, sod.ErrFieldDescModif) {
			e.failf("stored constraints of %s edited: Create returned %v, want ErrFieldDescModif", name, err)
		}
		if d := sameTree(before, treeHash(e.root)); d != "" {
			e.failf("stored constraints of %s edited: refused Create changed the directory: %s", name, d)
		}
		e.flag("descriptor-reconstrain")
	}
	cfgFlags(e)
	st.Case(prog.Hash(), len(e.m.objs) > 0, e.flags, func() interface{} { return prog })
}

// ---- (iii) settings switches through Create on a live handle

func caseC17Settings(t TB, prog *Program) {
	st := statsFor("C17")
	vshim.ResetClock()
	vshim.SetClock(vshim.ClockVirtual, 1)
	defer func() {
		vshim.SetClock(vshim.ClockReal, 1)
		vshim.ReleaseAll()
	}()
	pendingAtSwitch := false
	// ONE descriptor map is used for every schema handed to Create in this case, the way an
	// application keeps its schema definition around (and may edit it in place later)
	var liveFields sod.FieldDescMap
	schemaOf := func(c Config) sod.Schema {
		if liveFields == nil {
			liveFields = sod.FieldDescriptors(&Doc{})
			for p, k := range c.Cons {
				if err := liveFields.Constraint(p, sod.Constraints{Index: k.Index, Unique: k.Unique, Upper: k.Upper, Lower: k.Lower}); err != nil {
					panic(err)
				}
			}
		}
		sch := sod.NewCustomSchema(liveFields, c.Ext)
		sch.Compress, sch.Cache = c.Compress, c.Cache
		if c.Async != nil {
			sch.Asynchrone(c.Async.Threshold, time.Duration(c.Async.TimeoutMs)*time.Millisecond)
		}
		return sch
	}
	opts := RunOpts{SweepLevel: 1, SweepEveryOp: true, Walk: true,
		AfterOp: func(e *Env, i int, op *Op) {
			where := fmt.Sprintf("op %d (%s)", i, op.Op)
			switch op.Op {
			case "tick":
				tick(op.Ms)
			case "switch":
				nc := e.cfg
				nc.Cache = op.Cfg.Cache
				nc.Async = op.Cfg.Async
				// anything lagging on disk at the moment of the switch?
				w := WalkDir(e.collDir())
				for id, d := range e.m.objs {
					if f, ok := w.Objects[id]; !ok || string(f.Body) != canon(d) {
						pendingAtSwitch = true
						e.flag("switch-with-pending-writes")
					}
				}
				if e.cfg.Cache != nc.Cache {
					e.flag("switch-cache")
				}
				switch {
				case e.cfg.Async != nil && nc.Async == nil:
					e.flag("switch-async-on-off")
				case e.cfg.Async == nil && nc.Async != nil:
					e.flag("switch-async-off-on")
				case e.cfg.Async != nil && nc.Async != nil && *e.cfg.Async != *nc.Async:
					e.flag("switch-async-other-numbers")
				}
				// the schema handed to Create may also carry another Compress flag: compression is a
				// property of the stored collection, the stored setting keeps governing file names
				sch := schemaOf(nc)
				if nc.Async == nil && op.Cfg.Ext == "explicit-off" {
					// async writes switched off through an explicit, disabled settings value
					sch.AsyncWrites = &sod.Async{Enable: false, Threshold: 2, Timeout: 300 * time.Millisecond}
					e.flag("switch-async-off-explicit-settings")
				}
				if op.Cfg.Compress {
					sch.Compress = !e.cfg.Compress
					e.flag("switch-with-other-compress-flag")
				}
				if err := e.db.Create(&Doc{}, sch); err != nil {
					e.failf("%s: Create switching settings %s -> %s returned %v", where, canon(e.cfg), canon(nc), err)
				}
				e.cfg = nc
				e.m.cfg = nc
				if nc.Async != nil {
					e.dirty = true
				}
				// an acknowledged settings change is on disk: a process restarted now runs with it
				if ws := WalkDir(e.collDir()).Schema; ws == nil {
					e.failf("%s: schema.json unreadable after Create", where)
				} else {
					if ws.Cache != nc.Cache {
						e.failf("%s: Create switched the cache to %v, schema.json on disk says %v", where, nc.Cache, ws.Cache)
					}
					onDisk := ws.AsyncWrites != nil && ws.AsyncWrites.Enable
					if onDisk != (nc.Async != nil) {
						e.failf("%s: Create switched async writes to %v, schema.json on disk says %v", where, nc.Async != nil, onDisk)
					}
					if nc.Async != nil {
						to, _ := time.ParseDuration(ws.AsyncWrites.Timeout)
						if ws.AsyncWrites.Threshold != nc.Async.Threshold || to != time.Duration(nc.Async.TimeoutMs)*time.Millisecond {
							e.failf("%s: Create set async writes to threshold %d / %d ms, schema.json on disk says %d / %s", where, nc.Async.Threshold, nc.Async.TimeoutMs, ws.AsyncWrites.Threshold, ws.AsyncWrites.Timeout)
						}
					}
					e.flag("switch-reflected-in-schema-file")
				}
			case "switchBad":
				nc := e.cfg
				before := treeHash(e.root)
				want := sod.ErrExtensionMismatch
				if op.Ref%4 == 0 {
					nc.Ext = e.cfg.Ext + "x"
					// "no extension" and the default extension are different extensions
					if e.cfg.Ext == "" && op.Ref%8 == 0 {
						nc.Ext = ".json"
					} else if e.cfg.Ext == ".json" && op.Ref%8 == 0 {
						nc.Ext = ""
					}
				} else if op.Ref%4 == 1 {
					// extensions are file-name suffixes: they differ when their case differs
					nc.Ext = strings.ToUpper(e.cfg.Ext)
					if nc.Ext == e.cfg.Ext {
						nc.Ext = strings.ToLower(e.cfg.Ext)
					}
					if nc.Ext == e.cfg.Ext {
						nc.Ext = e.cfg.Ext + ".X" // (no letters in the extension)
					}
					e.flag("incompatible-extension-differs-in-case-only")
				} else {
					want = sod.ErrFieldDescModif
					nc.Cons = map[string]Cons{}
					for k, v := range e.cfg.Cons {
						nc.Cons[k] = v
					}
					c := nc.Cons["S2"]
					c.Index = !c.Index
					nc.Cons["S2"] = c
				}
				bad := nc.Schema()
				var restore func()
				if want == sod.ErrFieldDescModif && liveFields != nil && op.Ref%4 == 2 {
					// the application edits the descriptor map it used before, in place
					c := nc.Cons["S2"]
					old := e.cfg.Cons["S2"]
					liveFields.Constraint("S2", sod.Constraints{Index: c.Index, Unique: c.Unique, Upper: c.Upper, Lower: c.Lower})
					restore = func() {
						liveFields.Constraint("S2", sod.Constraints{Index: old.Index, Unique: old.Unique, Upper: old.Upper, Lower: old.Lower})
					}
					bad = schemaOf(e.cfg)
					e.flag("incompatible-through-in-place-edit-of-the-descriptor-map")
				}
				err := e.db.Create(&Doc{}, bad)
				if restore != nil {
					restore()
				}
				if !errors.Is(err, want) {
					e.failf("%s: Create with an incompatible schema returned %v, want %v", where, err, want)
				}
				// (the virtual clock is parked: nothing else can touch the directory)
				if d := sameTree(before, treeHash(e.root)); d != "" {
					e.failf("%s: refused Create changed the directory: %s", where, d)
				}
				e.flag("switch-refused")
			}
			vshim.WaitParked(guardReal)
			if e.cfg.Async == nil {
				// synchronous from now on: whatever was pending must not be lost - it is
				// readable (checked by the sweep) and on disk at the latest after Close
				w := WalkDir(e.collDir())
				lag := 0
				for id, d := range e.m.objs {
					if f, ok := w.Objects[id]; !ok || string(f.Body) != canon(d) {
						lag++
					}
				}
				e.dirty = lag > 0
			}
		},
	}
	e := NewEnv(t, prog, opts)
	defer e.Teardown()
	// the application's own schema definition, handed to Create once more (compatible: a no-op)
	if err := e.db.Create(&Doc{}, schemaOf(e.cfg)); err != nil {
		e.failf("Create with an identical schema: %v", err)
	}
	vshim.WaitParked(guardReal)
	e.Run()
	if err := e.db.Close(); err != nil {
		e.failf("Close: %v", err)
	}
	e.db = sod.Open(e.root)
	e.dirty = false
	if p := e.walkProblems(false); len(p) > 0 {
		e.failf("after Close: accepted writes did not all reach the disk: %v", p)
	}
	e.Check("after Close and reopen")
	cfgFlags(e)
	nt := e.flags["switch-with-pending-writes"] > 0 || (e.flags["switch-cache"] > 0 && e.flags["accepted-update"] > 0)
	_ = pendingAtSwitch
	st.Case(prog.Hash(), nt, e.flags, func() interface{} { return prog })
}

func TestC17(t *testing.T) {
	st := statsFor("C17")
	st.Rule = "(i) pairs (stored shape, current shape) from a family of 18 function-local struct declarations sharing the type string props.Shape (base, no exported fields at all, field added / removed / retyped / renamed, nested struct changed, pointer instead of value, only tags changed, identical redeclaration, and five shapes with several fields of one struct type - two / one / three pointers to it, a second value of it, a pointer to it one level down; and four that turn a nested struct into a slice, an array, a pointer or a slice of pointers of the same struct), 0-5 stored objects, cache and compression on/off: every operation (Count, Create, All, Search, Exist, InsertOrUpdate, InsertOrUpdateMany, DeleteAll, Repair, Get, Delete) returns ErrStructureChanged iff the (path,type) sets differ (own reflection walk), Create returns ErrFieldDescModif iff only constraints differ, the directory tree is byte-identical after refusals, compatible Create is idempotent and keeps every object file; (ii) generated edits of the stored descriptor map in schema.json (drop / add / retype / rename / re-constrain a generated path) against the fixed type Doc after a generated history: same oracle; (iii) on a live handle with the virtual clock: Create switching cache on<->off and async off->on, on->off, on->on with other numbers at arbitrary points of a generated history with pending writes (async also switched off through an explicit disabled settings value; the schema handed to Create may carry another Compress flag, which must not change how stored files are named), followed by reads, ticks, further writes and Close; incompatible Create (other extension / constraints) interleaved: predicted error, nothing changes. Oracle: every read path equals the model after every op (so nothing pending is lost or stale after a switch), by Close every accepted write is on disk (independent walker), the process survives (a death is reported by the driver with the case in flight). Non-trivial: shapes differ or constraints differ with >= 1 stored object; descriptor edit on a non-empty database; a switch with >= 1 write lagging on disk, or a cache switch in a case with an accepted update. Distinct by program hash."
	st.Assumptions = append(baseAssumptions(), "the current-shape side is a finite hand-written family (Go types are static); the stored side is additionally generated through descriptor edits")
	t.Run("shapes", func(t *testing.T) {
		rapid.Check(t, func(rt *rapid.T) {
			g := NewG(rt, &Profile{Property: "C17"})
			prog := &Program{Property: "C17", Cfg: Config{Ext: ".json"}, Aux: map[string]interface{}{
				"kind": "shapes", "damage": g.pct("damage") < 25, "writer": float64(g.uni(len(shapes), "writer")), "reader": float64(g.uni(len(shapes), "reader")),
				"objects": float64(g.uni(6, "n")), "compress": g.pct("c") < 40, "cache": g.pct("k") < 40}}
			guard(rt, prog, func() { caseC17Shapes(rt, prog) })
		})
	})
	t.Run("descriptors", func(t *testing.T) {
		prof := &Profile{Property: "C17", MaxOps: 6, W: map[string]int{"insert": 8, "update": 2, "delete": 1},
			AllowCache: true, AllowCompress: true, AllowLower: true, MaxIndexed: 3, MaxUnique: 1, CasePaths: 1, TinyBias: 60, BigBias: 10}
		rapid.Check(t, func(rt *rapid.T) {
			g := NewG(rt, prof)
			prog := g.Program()
			prog.Aux = map[string]interface{}{"kind": "descriptors", "edit": pickU(g, []string{"drop", "add", "retype", "rename", "reconstrain"}, "edit"), "ref": float64(g.uni(256, "ref"))}
			guard(rt, prog, func() { caseC17Descriptors(rt, prog) })
		})
	})
	t.Run("settings", func(t *testing.T) {
		if !instrumented() {
			t.Skip("needs the instrumented build")
		}
		prof := &Profile{Property: "C17", MaxOps: pick(14, 28),
			W:          map[string]int{"insert": 8, "update": 8, "delete": 2, "many": 1, "query": 2, "tick": 5, "switch": 8, "switchBad": 2, "reopen": 1, "createAgain": 1},
			AllowCache: true, AllowCompress: true, AllowAsync: true, AllowLower: true, MaxIndexed: 3, MaxUnique: 1, CasePaths: 0,
			TinyBias: 60, BigBias: 8, HookBias: 0, RichShape: 5, MaxLeaves: 1}
		rapid.Check(t, func(rt *rapid.T) {
			g := NewG(rt, prof)
			prog := g.Program()
			for i := range prog.Ops {
				op := &prog.Ops[i]
				if op.Op == "switch" {
					c := Config{Cache: g.pct("sc") < 50, Compress: g.pct("scomp") < 25}
					if g.pct("sa") < 50 {
						c.Async = &AsyncCfg{Threshold: 1 + g.uni(8, "st"), TimeoutMs: 100 * (1 + g.uni(10, "sto"))}
					} else if g.pct("explicitoff") < 50 {
						c.Ext = "explicit-off"
					}
					op.Cfg = &c
				}
				if op.Op == "switchBad" {
					op.Ref = g.uni(8, "badkind")
				}
			}
			prog.Aux = map[string]interface{}{"kind": "settings"}
			guard(rt, prog, func() { caseC17Settings(rt, prog) })
		})
	})
}

func init() {
	replayers["C17"] = func(t *testing.T, prog *Program) {
		guardT(t, prog, func() {
			switch prog.Aux["kind"] {
			case "shapes":
				caseC17Shapes(t, prog)
			case "descriptors":
				caseC17Descriptors(t, prog)
			default:
				caseC17Settings(t, prog)
			}
		})
	}
}
