package props

import (
	"testing"
)

// ---------------------------------------------------------------- C02

var propC02 = &modelProp{
	id: "C02",
	profile: func() *Profile {
		return &Profile{
			Property: "C02", WordShiftPct: 10, MaxOps: pick(14, 30),
			W:          map[string]int{"insert": 8, "update": 6, "delete": 3, "many": 2, "query": 12, "searchDelete": 3, "reopen": 2, "resurrect": 1},
			AllowCache: true, AllowCompress: true, AllowAsync: true,
			MinIndexed: 1, MaxIndexed: 5, MaxUnique: 1, CasePaths: 1,
			TinyBias: 60, BigBias: 15, HookBias: 0, RichShape: 5, MaxLeaves: 3,
		}
	},
	opts: RunOpts{SweepLevel: 2, SweepEveryOp: true, Control: true,
		FocusPaths: []string{"S", "I64", "In.N", "Pt.S", "Emb.ES", "U8", "F64", "T", "Pt.T", "F32", "U64"}},
	nt: func(e *Env) bool {
		return (e.flags["query-partial-result"] > 0 || e.flags["sweep-query-partial-result"] > 0) && (e.flags["update-moved-indexed-key"] > 0 || e.flags["delete"] > 0)
	},
	rule:  "histories (inserts, key-moving updates, deletes, batches, reopen) with tie- and boundary-heavy values; explicit query ops are chains of up to 3 {path,operator,probe} leaves joined by And/Or over top-level, nested, through-nil-pointer and embedded paths, indexed or not, probes from tiny/neighbour/extreme/free sources, consumed by Collect/Assign/One/AssignOne/Len/Delete; plus after every op an automatic sweep: for every indexed path and 11 fixed (mostly unindexed) paths, every operator x {every distinct stored value, its successor, min, max, below-min, above-max}. Oracle: model predicate over all stored objects: result multiset == expected (soundness and completeness), Len, And = intersection, Or = duplicate-free union, search-delete removes exactly the matches, Control stays nil. The same program is also run with the index assignment of non-unique paths complemented (metamorphic: indexing must not change results). TestC02Sparse: a type whose members are tagged omitempty / renamed and whose nil pointer struct is omitted from the file; zero values are frequent; every comparison on unindexed, indexed, nested and through-nil paths equals a predicate on the rows - on a live handle, after a search-delete over an unindexed path and on a cold handle. Query consumers also include Expects / ExpectsZeroOrN / AssignUnique with exact oracles, connectives through Search.Operation, Reverse requested twice, and a derived search that is limited, reversed, given a wrong expectation and consumed before the base search is collected again. Non-trivial: >=1 query (explicit or sweep) with a non-empty, non-total result in a case with >=1 key-moving update or delete. Distinct by program hash.",
	after: nil,
}

// complementIndex flips Index on every non-unique castable path that is
// either indexed or in the focus list.
func complementIndex(c Config, focus []string) Config {
	out := c
	out.Cons = map[string]Cons{}
	for k, v := range c.Cons {
		out.Cons[k] = v
	}
	flip := map[string]bool{}
	for k, v := range c.Cons {
		if v.Index && !v.Unique {
			flip[k] = true
		}
	}
	for _, f := range focus {
		flip[f] = true
	}
	for k := range flip {
		v := out.Cons[k]
		if v.Unique {
			continue
		}
		v.Index = !v.Index
		out.Cons[k] = v
	}
	return out
}

func init() {
	// run every C02 program a second time with the complementary index assignment
	propC02.twin = func(p *Program) *Program {
		q := *p
		q.Cfg = complementIndex(p.Cfg, propC02.opts.FocusPaths)
		return &q
	}
	propC02.register()
}

func TestC02(t *testing.T) { propC02.test(t) }

// ---------------------------------------------------------------- C03

var propC03 = &modelProp{
	id: "C03",
	profile: func() *Profile {
		return &Profile{
			Property: "C03", WordShiftPct: 10, MaxOps: pick(15, 35),
			W:          map[string]int{"insert": 8, "update": 8, "resave": 2, "delete": 4, "resurrect": 2, "many": 2, "bulk": 1, "reopen": 3, "abandonReopen": 1, "upsertUUID": 1, "query": 1},
			AllowCache: true, AllowCompress: true, AllowAsync: true,
			MinUnique: 1, MaxUnique: 3, MaxIndexed: 1, CasePaths: 1,
			// types whose equal values have several representations (instants in different
			// zones, 0.0 / -0.0, float32 widened, case-mapped strings) are favoured
			ConsPaths: []string{"T", "In.T", "Pt.T", "F64", "F32", "In.F", "S", "Pt.S", "Emb.ES", "U8", "I64", "U64", "In.N", "Emb.EN", "I8", "In.U"},
			TinyBias:  70, BigBias: 12, HookBias: 8, RichShape: 5, MaxLeaves: 1,
		}
	},
	opts: RunOpts{SweepLevel: 1, SweepEveryOp: false, Control: true},
	nt: func(e *Env) bool {
		return e.flags["rejected-unique"] > 0 && e.flags["reuse-of-released-unique-value"] > 0
	},
	rule: "configurations with 1-3 unique paths of any indexable type (ints, uints, floats, strings incl. upper/lower, times, nested/through-pointer/embedded paths), tiny value domains so conflicts are the norm; ops: insert, update onto another object's key, update releasing a key, resave, delete then reuse, resurrect, batches, reopen/abandon between any two. Oracle: the model decides accept/reject exactly (iff): rejected <=> another stored object holds the canonicalised value in some unique field, error satisfies IsUnique; accepted writes must not be rejected; all read paths equal the model after every op (so pairwise distinctness holds). TestC03Mass repeats the oracle on big collections: 1030-1730 objects with a unique integer key and two indexed fields, filled in a generated key order, deleted down to 2..N/4 survivors in another generated order by single deletes and range search-deletes; at checkpoints and at the end Count, the sorted unique index, group counts of the indexed field and Control equal a map model; stored keys are refused for a second object, released keys are accepted at once (most recent, smallest and largest), before and after a reopen. Non-trivial: >=1 expected rejection and >=1 accepted reuse of a value released by a delete or update. Distinct by program hash.",
}

func init() { propC03.register() }

func TestC03(t *testing.T) { propC03.test(t) }

// ---------------------------------------------------------------- C04

var propC04 = &modelProp{
	id: "C04",
	profile: func() *Profile {
		return &Profile{
			Property: "C04", MaxOps: pick(12, 30),
			W:          map[string]int{"insert": 8, "update": 5, "delete": 3, "resurrect": 1, "many": 2, "bulk": 1, "query": 3, "searchDelete": 1, "reopen": 6, "abandonReopen": 3, "deleteAll": 1, "upsertUUID": 1, "createAgain": 2},
			AllowCache: true, AllowCompress: true, AllowAsync: true, AllowLower: true,
			MinIndexed: 1, MaxIndexed: 5, MaxUnique: 2, CasePaths: 1,
			TinyBias: 25, BigBias: 45, HookBias: 5, RichShape: 25, MaxLeaves: 2,
		}
	},
	opts: RunOpts{SweepLevel: 2, SweepEveryOp: false, Control: true, DiffReopen: true, Walk: true,
		FocusPaths: []string{"S", "I64", "T", "U64", "F64"}},
	nt: func(e *Env) bool {
		return (e.flags["reopen-with-indexed-timestamp"] > 0 || e.flags["reopen-with-indexed-int-beyond-2^53"] > 0) && e.flags["op-after-reopen"] > 0
	},
	rule: "C01's programs with Close+Open and, in synchronous configurations, abandon+Open (no Close) at arbitrary positions; values biased to 64-bit magnitudes, nanosecond timestamps, uint64 > MaxInt64 and float edge values. Oracle: differential - the complete observation (objects, Get/Exist per uuid, AssignIndex order, search sweep: every operator x every distinct stored value and neighbours on every indexed path and 5 fixed paths, Control) taken on the old handle immediately before equals the one taken on the new handle immediately after, including the EXACT result sequence (tie order) of every index-ordered query; both equal the model; ops after the reopen (incl. unique conflicts) must get the model's outcome. Non-trivial: a reopen with >=1 indexed timestamp or indexed integer beyond 2^53, followed by >=1 op. Distinct by program hash.",
}

func init() { propC04.register() }

func TestC04(t *testing.T) { propC04.test(t) }

// ---------------------------------------------------------------- C07

var propC07 = &modelProp{
	id: "C07",
	profile: func() *Profile {
		return &Profile{
			Property: "C07", MaxOps: pick(8, 16),
			W:          map[string]int{"insert": 4, "update": 1, "delete": 1, "many": 8, "bulk": 8, "reopen": 1},
			AllowCache: true, AllowCompress: true, AllowAsync: true,
			MinUnique: 0, MaxUnique: 2, MaxIndexed: 2, CasePaths: 1,
			ConsPaths: []string{"T", "In.T", "Pt.T", "F64", "F32", "In.F", "S", "Pt.S", "Emb.ES", "U8", "I64", "U64", "In.N", "Emb.EN", "I8", "In.U", "S2", "Pt.N"},
			TinyBias:  65, BigBias: 10, HookBias: 30, RichShape: 5, MaxLeaves: 1,
		}
	},
	opts: RunOpts{SweepLevel: 1, SweepEveryOp: true, Control: true},
	nt: func(e *Env) bool {
		return e.flags["batch-offender-not-first"] > 0 || e.flags["batch-intra-conflict"] > 0 || e.flags["bulk-failed-later-chunk"] > 0
	},
	rule: "pre-existing contents from a history; batches of 0-8 members mixing fresh objects, objects with caller uuids, updates of stored objects, the same Go object twice, a second object carrying the uuid of an earlier member, a member of another type, members invalid per Validate (possibly only after Transform), members conflicting with stored objects or with each other; InsertOrUpdateBulk with chunk sizes 0-5 over the same shapes. Oracle: model accepts a batch iff every member passes against the pre-batch state and the members before it; accept => n == len and state == model; reject => n == 0, err != nil (class where named), every read path unchanged; Bulk applies whole chunks in order up to the first failing chunk and n equals the objects of applied chunks. Non-trivial: offender at position >= 1, or an intra-batch conflict, or a Bulk whose failing chunk is not the first. Distinct by program hash.",
}

func init() { propC07.register() }

func TestC07(t *testing.T) { propC07.test(t) }

// ---------------------------------------------------------------- C13

var propC13 = &modelProp{
	id: "C13",
	profile: func() *Profile {
		return &Profile{
			Property: "C13", MaxOps: pick(16, 35),
			W:          map[string]int{"insert": 10, "update": 4, "delete": 2, "many": 2, "query": 14, "reopen": 1},
			AllowCache: true, AllowCompress: true, AllowAsync: true,
			MinIndexed: 2, MaxIndexed: 5, MaxUnique: 0, CasePaths: 0,
			ConsPaths: []string{"I64", "I8", "U8", "U64", "F64", "S", "T", "In.N", "Pt.S", "Emb.EN", "F32"},
			TinyBias:  75, BigBias: 10, HookBias: 0, RichShape: 0, MaxLeaves: 3,
			LimitPct: 70, IndexedLastPct: 85, AndOnlyPct: 80, SeedBatch: 10,
		}
	},
	opts: RunOpts{SweepLevel: 1, SweepEveryOp: false, Control: true},
	nt:   func(e *Env) bool { return e.flags["query-ordered-ties-limit-cuts"] > 0 },
	rule: "tie-heavy collections; queries that are single comparisons or And chains (Or chains are generated too but carry no order obligation) ending on an indexed path, limits 0,1,2,3,5,100,MaxUint64, with and without Reverse, consumers Collect/Assign/One/AssignOne. Oracle: results are distinct members of the model's match set, exactly min(limit,|matches|) of them, whose key sequence equals the first keys of the model's match set sorted non-increasing (non-decreasing with Reverse) - tie order left free; One = first key or ErrNoObjectFound iff no match; AssignIndex = the model's multiset of values in non-increasing order (times by UnixNano), checked after every op; after a refinement was derived from a search the base search is collected again and must still denote its own matches in index order. Further consumers with exact oracles: Expects(n) / ExpectsZeroOrN(n) with n right, off by one or far off (Err = ErrUnexpectedNumberOfResults iff the count is unexpected, then no consumer returns objects), AssignUnique (the object iff exactly one match, ErrUnexpectedNumberOfResults for more, ErrNoObjectFound for none); connectives are given as strings to Search.Operation in a quarter of the chain links; Len() is checked again after One. Non-trivial: an ordered query whose match set has >=2 distinct keys and >=1 tie with a limit strictly between 0 and |matches|. Distinct by program hash.",
}

func init() { propC13.register() }

func TestC13(t *testing.T) { propC13.test(t) }

// ---------------------------------------------------------------- C15

var propC15 = &modelProp{
	id: "C15",
	profile: func() *Profile {
		return &Profile{
			Property: "C15", MaxOps: pick(10, 25),
			W:          map[string]int{"insert": 8, "update": 5, "resave": 2, "many": 5, "bulk": 4, "delete": 1, "query": 2, "reopen": 1},
			AllowCache: true, AllowCompress: true, AllowAsync: true,
			MaxIndexed: 2, MaxUnique: 1, CasePaths: 2,
			ConsPaths: []string{"S", "S", "I64", "S2", "Pt.S"},
			TinyBias:  75, BigBias: 10, HookBias: 85, RichShape: 0, MaxLeaves: 1,
		}
	},
	opts: RunOpts{SweepLevel: 1, SweepEveryOp: true, Control: true, FocusPaths: []string{"S", "I64"}},
	nt:   func(e *Env) bool { return e.flags["validity-depends-on-transform"] > 0 },
	rule: "documents whose Transform (append a suffix to S, bump I64) and Validate (reject S == x, reject len(S) >= n; records what it saw) are driven by stored data, with S frequently upper/lower constrained, indexed or unique; entry points InsertOrUpdate, InsertOrUpdateMany, InsertOrUpdateBulk. Oracle: model applies Transform -> schema case transforms -> Validate; stored value == model's transformed value on every read path; the value Validate observed == the stored value (order proof, single inserts); invalid => errors.Is(err, ErrInvalidObject), object absent from every read path, batch untouched. Non-trivial: >=1 object whose validity differs between the raw and the transformed+canonicalised value. Distinct by program hash.",
}

func init() { propC15.register() }

func TestC15(t *testing.T) { propC15.test(t) }

// ---------------------------------------------------------------- C16

var propC16 = &modelProp{
	id: "C16",
	profile: func() *Profile {
		return &Profile{
			Property: "C16", MaxOps: pick(12, 30),
			W:          map[string]int{"insert": 8, "update": 4, "resave": 2, "many": 2, "delete": 1, "query": 10, "searchDelete": 1, "reopen": 1},
			AllowCache: true, AllowCompress: true, AllowAsync: true,
			MaxIndexed: 3, MaxUnique: 2, CasePaths: 3,
			ConsPaths: []string{"S", "S2", "In.S", "Pt.S", "Emb.ES", "H.RejectS"},
			TinyBias:  35, BigBias: 35, HookBias: 5, RichShape: 0, MaxLeaves: 2,
		}
	},
	opts: RunOpts{SweepLevel: 1, SweepEveryOp: false, Control: true, FocusPaths: []string{"S", "S2", "In.S", "Pt.S", "Emb.ES"}},
	nt: func(e *Env) bool {
		return e.flags["case-changed-on-store"] > 0 && e.flags["probe-case-changed"] > 0
	},
	rule: "strings over mixed-case ASCII, Latin/Greek/Cyrillic/Armenian letters and special-casing runes (ß ı İ ǅ ς ſ K Σ ...); upper, lower or both on top-level, nested-by-value, behind-pointer (nil and non-nil) and embedded string paths, each indexed / unindexed / unique; sometimes also on the interface{} field while it holds a string. Oracle: stored == ToLower?(ToUpper?(supplied)) on every read path; re-saving a stored object changes nothing (idempotence); for probe p: match <=> canonical(p) compares with the stored canonical value, identically on indexed and unindexed paths; unique conflict <=> canonical values equal. TestC16Tags drives the struct-tag path (DefaultSchema + sod tags unique,lower / upper / index, tags on nested, behind-pointer and embedded fields) with the same oracle written directly on strings.ToUpper/ToLower, and checks that unique implies an index while an untagged field has none. Value sources include strings longer than 32 bytes in both cases. Non-trivial: >=1 stored value changed by canonicalisation and >=1 probe changed by canonicalisation. Distinct by program hash.",
	after: func(e *Env) {
		// explicit idempotence check on what the database returns
		objs, err := e.db.All(&Doc{})
		if err != nil {
			e.failf("All: %v", err)
		}
		for _, o := range objs {
			d := o.(*Doc)
			for path, c := range e.cfg.Cons {
				if sv, ok := d.Any.(string); ok && path == "Any" && (c.Upper || c.Lower) {
					if canonCase(c, sv) != sv {
						e.failf("stored value %q in the interface field Any is not in canonical case (constraint %+v)", sv, c)
					}
					e.flag("case-constraint-on-interface-field")
				}
				if (c.Upper || c.Lower) && docPathIndex[path].Class == ClsStr && !throughNil(d, path) {
					v := leaf(d, path).String()
					if canonCase(c, v) != v {
						e.failf("stored value %q at %s is not in canonical case (constraint %+v)", v, path, c)
					}
				}
			}
		}
	},
}

func init() { propC16.register() }

func TestC16(t *testing.T) { propC16.test(t) }
