package props

import (
	"encoding/json"
	"fmt"
	"os"
	"path/filepath"
	"sort"
	"strconv"
	"strings"
	"sync"
	"time"

	"pgregory.net/rapid"
)

// ---------------------------------------------------------------- evidence bookkeeping
//
// Every property test classifies the cases it executed.  At the end of the
// process the statistics are written to $VERIF_OUT/stats-<property>-<shard>.json
// and the driver merges the shards into evidence/<ID>.json.

type Stats struct {
	Property    string         `json:"property"`
	Shard       string         `json:"shard"`
	Evaluations int            `json:"evaluations"`
	Nontrivial  []uint64       `json:"nontrivial_hashes"` // distinct hashes of non-trivial cases
	Classes     map[string]int `json:"classes"`
	Excluded    map[string]int `json:"excluded"`
	Samples     []interface{}  `json:"samples"`
	Rule        string         `json:"rule"`
	Assumptions []string       `json:"assumptions"`
	Extra       map[string]int `json:"extra"`
	Failed      bool           `json:"failed"`

	mu     sync.Mutex
	seen   map[uint64]bool
	failed bool
}

var (
	statsMu  sync.Mutex
	allStats = map[string]*Stats{}
)

func outDir() string {
	if d := os.Getenv("VERIF_OUT"); d != "" {
		return d
	}
	return ""
}

func shardName() string {
	if s := os.Getenv("VERIF_SHARD"); s != "" {
		return s
	}
	return "0"
}

func statsFor(prop string) *Stats {
	statsMu.Lock()
	defer statsMu.Unlock()
	if s, ok := allStats[prop]; ok {
		return s
	}
	s := &Stats{Property: prop, Shard: shardName(), Classes: map[string]int{}, Excluded: map[string]int{}, Extra: map[string]int{}, seen: map[uint64]bool{}}
	allStats[prop] = s
	return s
}

// Case records one executed case.
func (s *Stats) Case(hash uint64, nontrivial bool, flags map[string]int, sample func() interface{}) {
	s.mu.Lock()
	defer s.mu.Unlock()
	if s.failed {
		return // shrinking in progress: not part of the generated search
	}
	s.Evaluations++
	for k, v := range flags {
		if v > 0 {
			s.Classes[k]++
		}
	}
	if nontrivial {
		s.Classes["nontrivial"]++
		if !s.seen[hash] {
			s.seen[hash] = true
			s.Nontrivial = append(s.Nontrivial, hash)
			if len(s.Samples) < 4 && sample != nil {
				s.Samples = append(s.Samples, sample())
			}
		}
	}
}

func (s *Stats) Exclude(key string) {
	s.mu.Lock()
	defer s.mu.Unlock()
	s.Excluded[key]++
}

func (s *Stats) Add(key string, n int) {
	s.mu.Lock()
	defer s.mu.Unlock()
	s.Extra[key] += n
}

func (s *Stats) markFailed() {
	s.mu.Lock()
	defer s.mu.Unlock()
	s.failed = true
	s.Failed = true
}

func writeStats() {
	dir := outDir()
	if dir == "" {
		return
	}
	statsMu.Lock()
	defer statsMu.Unlock()
	for _, s := range allStats {
		s.mu.Lock()
		b, _ := json.Marshal(s)
		s.mu.Unlock()
		os.WriteFile(filepath.Join(dir, fmt.Sprintf("stats-%s-%s.json", s.Property, s.Shard)), b, 0644)
	}
}

// recordFailure writes the failing program; rapid's last failing execution is
// the shrunk one, so the file ends up holding the minimal reproduction.
func recordFailure(p *Program, msg string) {
	if p != nil {
		statsFor(p.Property).markFailed()
	}
	dir := outDir()
	if dir == "" || p == nil {
		return
	}
	out := struct {
		Program *Program `json:"program"`
		Message string   `json:"message"`
	}{p, msg}
	b, _ := json.MarshalIndent(out, "", " ")
	os.WriteFile(filepath.Join(dir, fmt.Sprintf("fail-%s-%s.json", p.Property, shardName())), b, 0644)
}

// journal writes the case in flight before it runs (process-killing failures).
func journal(p *Program) {
	dir := outDir()
	if dir == "" {
		return
	}
	os.WriteFile(filepath.Join(dir, fmt.Sprintf("inflight-%s-%s.json", p.Property, shardName())), p.JSON(), 0644)
}

func journalDone(p *Program) {
	dir := outDir()
	if dir == "" {
		return
	}
	os.Remove(filepath.Join(dir, fmt.Sprintf("inflight-%s-%s.json", p.Property, shardName())))
}

// tier parameters
func envInt(name string, def int) int {
	if v := os.Getenv(name); v != "" {
		if n, err := strconv.Atoi(v); err == nil {
			return n
		}
	}
	return def
}

func thorough() bool { return os.Getenv("VERIF_TIER") == "thorough" }

// pick returns q in the quick tier and t in the thorough tier.
func pick(q, t int) int {
	if thorough() {
		return t
	}
	return q
}

func sortedKeys(m map[string]int) []string {
	ks := make([]string, 0, len(m))
	for k := range m {
		ks = append(ks, k)
	}
	sort.Strings(ks)
	return ks
}

// guard wraps a property body: journals the case, converts panics that escape
// sod into failures with a replay file, and records statistics.
func guard(rt *rapid.T, prog *Program, body func()) {
	journal(prog)
	defer journalDone(prog)
	done := make(chan struct{})
	defer close(done)
	go hangWatch(prog, done)
	defer func() {
		if r := recover(); r != nil {
			if isRapidPanic(r) {
				panic(r)
			}
			msg := fmt.Sprintf("panic: %v\n%s", r, stack())
			recordFailure(prog, msg)
			rt.Fatalf("%s\nprogram: %s", msg, prog.JSON())
		}
	}()
	body()
}

// hangWatch: a case normally takes milliseconds. If it is still running after two
// minutes and every goroutine that is inside the sod package waits for a lock on
// two samples, the case is a deadlock: it is recorded as the failing case and the
// process exits (the driver reports it). A case that is merely slow is left alone
// (the go test timeout then makes the shard inconclusive, never a violation).
func hangWatch(prog *Program, done chan struct{}) {
	select {
	case <-done:
		return
	case <-time.After(120 * time.Second):
	}
	stuck := func() (bool, string) {
		all, found := true, 0
		var lines []string
		for _, g := range dumpGoroutines() {
			if !strings.Contains(g.stack, "github.com/0xrawsec/sod.") {
				continue
			}
			found++
			in := false
			for _, ls := range lockStates {
				if g.state == ls {
					in = true
				}
			}
			if !in {
				all = false
			}
			top := g.stack
			if parts := strings.SplitN(g.stack, "\n", 10); len(parts) > 9 {
				top = strings.Join(parts[:9], "\n")
			}
			lines = append(lines, top)
		}
		return all && found > 0, strings.Join(lines, "\n---\n")
	}
	s1, _ := stuck()
	time.Sleep(3 * time.Second)
	select {
	case <-done:
		return
	default:
	}
	s2, summary := stuck()
	if s1 && s2 {
		recordFailure(prog, "hang: the case did not finish within 120 s and every goroutine inside the sod package waits for a lock:\n"+summary)
		writeStats()
		os.Exit(3)
	}
}
