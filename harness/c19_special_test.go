package props

import (
	"flag"
	"fmt"
	"os"
	"path/filepath"
	"strconv"
	"syscall"
	"testing"

	"github.com/0xrawsec/sod"
	"pgregory.net/rapid"
)

// ---------------------------------------------------------------- C19: schema.json is not a file
//
// Whatever the collection directory contains: here schema.json itself is replaced by something
// that is not a regular file - a directory, a named pipe (opening one blocks until a writer
// shows up), a symbolic link to a directory, to itself, to nothing - or is empty. Every call
// returns (an error), nothing panics, nothing hangs; Close returns.

func TestC19Special(t *testing.T) {
	if f := flag.Lookup("rapid.checks"); f != nil {
		old := f.Value.String()
		if n, err := strconv.Atoi(old); err == nil {
			flag.Set("rapid.checks", strconv.Itoa(2+n/40))
			defer flag.Set("rapid.checks", old)
		}
	}
	rapid.Check(t, func(rt *rapid.T) {
		g := NewG(rt, &Profile{Property: "C19"})
		prog := &Program{Property: "C19", Aux: map[string]interface{}{
			"special": pickU(g, []string{"fifo", "fifo", "dir", "linkdir", "linkself", "linknowhere", "empty"}, "special"),
			"objects": g.uni(4, "objects"), "cache": g.pct("cache") < 50, "async": g.pct("async") < 30}}
		guard(rt, prog, func() { caseC19Special(rt, prog) })
	})
}

func caseC19Special(t TB, prog *Program) {
	st := statsFor("C19")
	kind, _ := prog.Aux["special"].(string)
	n := auxInt(prog.Aux, "objects")
	cache, _ := prog.Aux["cache"].(bool)
	async, _ := prog.Aux["async"].(bool)
	fail := func(format string, a ...interface{}) {
		msg := fmt.Sprintf(format, a...)
		recordFailure(prog, msg)
		t.Fatalf("%s\nprogram: %s", msg, prog.JSON())
	}
	root := newRoot()
	defer os.RemoveAll(root)
	sod.LowercaseNames = false
	schema := sod.DefaultSchema
	schema.Cache = cache
	if async {
		schema.Asynchrone(2, 1e8)
	}
	db := sod.Open(root)
	if err := db.Create(&Other{}, schema); err != nil {
		fail("Create: %v", err)
	}
	for i := 0; i < n; i++ {
		if err := db.InsertOrUpdate(&Other{K: int64(i), V: "v"}); err != nil {
			fail("insert: %v", err)
		}
	}
	if err := db.Close(); err != nil {
		fail("Close: %v", err)
	}
	sp := filepath.Join(root, "props.Other", "schema.json")
	os.Remove(sp)
	var err error
	switch kind {
	case "fifo":
		err = syscall.Mkfifo(sp, 0600)
	case "dir":
		err = os.Mkdir(sp, 0700)
	case "linkdir":
		err = os.Symlink(root, sp)
	case "linkself":
		err = os.Symlink(sp, sp)
	case "linknowhere":
		err = os.Symlink(filepath.Join(root, "no-such-file"), sp)
	case "empty":
		err = os.WriteFile(sp, nil, 0600)
	}
	if err != nil {
		fail("harness: %v", err)
	}
	db = sod.Open(root)
	calls := []struct {
		name string
		f    func()
	}{
		{"Count", func() { db.Count(&Other{}) }},
		{"InsertOrUpdate", func() { db.InsertOrUpdate(&Other{K: 99}) }},
		{"All", func() { db.All(&Other{}) }},
		{"Search", func() { db.Search(&Other{}, "K", ">=", int64(0)).Collect() }},
		{"Control", func() { db.Control() }},
		{"Repair", func() { db.Repair(&Other{}) }},
		{"Create", func() { db.Create(&Other{}, schema) }},
		{"Count again", func() { db.Count(&Other{}) }},
		{"Close", func() { db.Close() }},
	}
	for _, c := range calls {
		p, stk, hung := protect(c.name, c.f)
		if hung {
			fail("schema.json replaced by %s: %s did not return within the watchdog period (hang)", kind, c.name)
		}
		if p != nil {
			fail("schema.json replaced by %s: %s panicked: %v\n%s", kind, c.name, p, stk)
		}
	}
	st.Case(prog.Hash(), true, map[string]int{"schema-is-" + kind: 1}, func() interface{} { return prog })
}

func init() {
	replayAlts = append(replayAlts, replayAlt{prop: "C19", match: hasAux("special"), run: func(t *testing.T, prog *Program) {
		guardT(t, prog, func() { caseC19Special(t, prog) })
	}})
}
