package props

import (
	"bytes"
	"encoding/json"
	"fmt"
	"os"
	"path/filepath"
	"sort"
	"strings"
	"testing"
	"time"

	"github.com/0xrawsec/sod"
	"pgregory.net/rapid"
)

// ---------------------------------------------------------------- C19: malformed files and arguments

// Mut is one mutation of the collection directory.
type Mut struct {
	// target: "schema" | "object" | "entry"
	Target string `json:"target"`
	// kind: trunc flip tree  (files) ; nodot subdir uuiddir foreignext empty symlink (entries)
	Kind string `json:"kind"`
	Ref  int    `json:"ref,omitempty"`  // which object file
	Off  int    `json:"off,omitempty"`  // byte offset (per mille of the length) / bit
	Node int    `json:"node,omitempty"` // which tree node
	Repl string `json:"repl,omitempty"` // replacement shape for tree mutations
}

var replShapes = []string{"cast-int64", "cast-uint64", "cast-float64", "cast-string", "null", "num", "negnum", "float", "bignum", "str", "emptystr", "arr", "obj", "true", "delete", "tuple0", "tuple1", "tuple3", "strid", "nested", "dup"}

type treePath struct {
	parent interface{} // map[string]interface{} or []interface{}
	key    string
	idx    int
	holder *interface{} // for replacing slices in their parent
}

// collectNodes lists every node of a JSON tree in deterministic order.
func collectNodes(v interface{}, out *[]treePath, parent interface{}, key string, idx int) {
	*out = append(*out, treePath{parent: parent, key: key, idx: idx})
	switch x := v.(type) {
	case map[string]interface{}:
		ks := make([]string, 0, len(x))
		for k := range x {
			ks = append(ks, k)
		}
		sort.Strings(ks)
		for _, k := range ks {
			collectNodes(x[k], out, x, k, -1)
		}
	case []interface{}:
		for i := range x {
			collectNodes(x[i], out, x, "", i)
		}
	}
}

func replacement(shape string) (interface{}, bool) {
	switch shape {
	case "null":
		return nil, true
	case "num":
		return json.Number("7"), true
	case "negnum":
		return json.Number("-3"), true
	case "float":
		return json.Number("1.5"), true
	case "bignum":
		return json.Number("123456789012345678901234567890"), true
	case "str":
		return "zz", true
	case "emptystr":
		return "", true
	case "arr":
		return []interface{}{}, true
	case "obj":
		return map[string]interface{}{}, true
	case "true":
		return true, true
	case "tuple0":
		return []interface{}{[]interface{}{}}, true
	case "tuple1":
		return []interface{}{[]interface{}{json.Number("1")}}, true
	case "tuple3":
		return []interface{}{[]interface{}{json.Number("1"), json.Number("2"), json.Number("3")}}, true
	case "strid":
		return []interface{}{[]interface{}{json.Number("1"), "notanumber"}}, true
	case "cast-int64", "cast-uint64", "cast-float64", "cast-string":
		// a string that is a perfectly valid cast / type name, just possibly the wrong one
		return strings.TrimPrefix(shape, "cast-"), true
	case "nested":
		return map[string]interface{}{"index": []interface{}{map[string]interface{}{"a": nil}}, "cast": "complex128", "name": "S..X"}, true
	}
	return nil, false
}

// mutateTree applies one structural mutation to JSON bytes; ok=false when the
// input is not JSON (then the caller falls back to a byte-level mutation).
func mutateTree(b []byte, node int, shape string) ([]byte, bool) {
	dec := json.NewDecoder(bytes.NewReader(b))
	dec.UseNumber()
	var root interface{}
	if dec.Decode(&root) != nil {
		return nil, false
	}
	var nodes []treePath
	collectNodes(root, &nodes, nil, "", -1)
	if len(nodes) <= 1 {
		return nil, false
	}
	n := nodes[1+node%(len(nodes)-1)]
	repl, isRepl := replacement(shape)
	switch p := n.parent.(type) {
	case map[string]interface{}:
		switch {
		case shape == "delete":
			delete(p, n.key)
		case shape == "dup":
			p[n.key+"2"] = p[n.key]
		case isRepl:
			p[n.key] = repl
		}
	case []interface{}:
		switch {
		case shape == "delete" || shape == "dup":
			// arrays: overwrite with a copy of the neighbour (duplicates an element)
			if len(p) > 1 {
				p[n.idx] = p[(n.idx+1)%len(p)]
			}
		case isRepl:
			p[n.idx] = repl
		}
	}
	out, err := json.Marshal(root)
	if err != nil {
		return nil, false
	}
	return out, true
}

func mutateBytes(b []byte, kind string, off int) []byte {
	if len(b) == 0 {
		return b
	}
	switch kind {
	case "zero": // an empty file (open + crash, or a full disk)
		return []byte{}
	case "trunc":
		return append([]byte(nil), b[:off%len(b)]...)
	default: // flip
		c := append([]byte(nil), b...)
		i := (off / 8) % len(c)
		c[i] ^= 1 << uint(off%8)
		return c
	}
}

// protect runs f under recover and a watchdog.
func protect(name string, f func()) (panicked interface{}, stackTrace string, hung bool) {
	done := make(chan struct{})
	go func() {
		defer close(done)
		defer func() {
			if r := recover(); r != nil {
				panicked = r
				stackTrace = stack()
			}
		}()
		f()
	}()
	select {
	case <-done:
	case <-time.After(15 * time.Second):
		hung = true
	}
	return
}

func TestC19(t *testing.T) {
	st := statsFor("C19")
	st.Rule = "(a) a valid database is built by a generated history, closed, and then damaged by 1-3 generated mutations: schema.json or an object file truncated at a generated offset, a bit flipped, or - structure aware - the JSON subtree at a generated node replaced by a value of another shape (null, numbers incl. negative/fractional/huge, strings, empty array/object, tuples of arity 0/1/3, non-numeric object id, unknown cast, deleted or duplicated key/element); extra directory entries (name without a dot, sub-directory, uuid-named directory, uuid-named file with a foreign extension, empty uuid-named file, dangling symlink). replacement shapes include other VALID casts/type names; (b) search argument triples (each also as And/Or refinement of a valid search with an all-matching and, if available, a single-match left side, followed by a write under the watchdog to expose a lock left behind): paths {valid leaf, struct, pointer, unexported, embedded struct, bogus, empty, dotted garbage} x operators {7 valid, garbage} x values {well typed, other class, nil, bool, struct, invalid pattern} on empty and non-empty collections, indexed and not. Oracle: a fixed battery of API calls (first load, Control, Count, All, Get of every uuid, searches on indexed and unindexed paths, InsertOrUpdate, Delete, Repair, Control, Close, reopen) runs under recover() and a watchdog: no panic, no hang, every call returns an error or a result; a search the model cannot evaluate returns no objects; when only stray (non uuid-named) entries were added every result still equals the model. On the damaged directory a scan must fail or cover the collection: Search(x >= 0) and Search(x < 0) over an unindexed integer path either return an error or together as many objects as Count. Unknown connectives given to Search.Operation must fail; a search on the interface{} field through a template carrying a string / int64 / float64 (objects hold other dynamic types) must not panic and may only return objects holding the probe. TestC19Special: schema.json is replaced by a named pipe, a directory, a symbolic link to a directory / to itself / to nothing, or an empty file; Count, InsertOrUpdate, All, Search, Control, Repair, Create and Close must return without panic. Non-trivial: a mutation that keeps the file valid JSON (decoding reaches the type-asserting code), a stray entry, or an argument outside the well-formed domain. Distinct by program hash."
	st.Assumptions = append(baseAssumptions(), "panics documented for misuse of Assign*/AssignIndex targets are not provoked", "a call that does not return within 15 s on a database of < 20 objects is a hang")
	prof := &Profile{
		Property: "C19", MaxOps: pick(8, 16),
		W:          map[string]int{"insert": 9, "update": 3, "delete": 2, "many": 2, "query": 6},
		AllowCache: true, AllowCompress: true, AllowAsync: true, AllowLower: true,
		MaxIndexed: 4, MaxUnique: 1, CasePaths: 1,
		TinyBias: 55, BigBias: 12, HookBias: 0, RichShape: 30, MaxLeaves: 2, BadQueryPct: 60,
	}
	rapid.Check(t, func(rt *rapid.T) {
		g := NewG(rt, prof)
		prog := g.Program()
		var muts []Mut
		n := g.uni(4, "nmuts")
		for i := 0; i < n; i++ {
			m := Mut{Target: pickU(g, []string{"schema", "schema", "schema", "object", "entry"}, "target")}
			switch m.Target {
			case "entry":
				m.Kind = pickU(g, []string{"nodot", "subdir", "uuiddir", "foreignext", "empty", "symlink", "nodotuuid"}, "entrykind")
			default:
				m.Kind = pickU(g, []string{"tree", "tree", "tree", "trunc", "flip", "zero"}, "mutkind")
				m.Ref = g.uni(64, "mref")
				m.Off = g.uni(1<<16, "moff")
				m.Node = g.uni(1<<12, "mnode")
				m.Repl = pickU(g, replShapes, "repl")
			}
			muts = append(muts, m)
		}
		// a few argument triples of the hostile kind, run before the damage
		var args []Leaf
		for i, k := 0, g.uni(5, "nargs"); i < k; i++ {
			args = append(args, Leaf{
				Path: pickU(g, []string{"S", "I64", "In", "Pt", "seen", "Emb", "Item", "Nope", "", "a..b", ".", "In.S.X", "PI", "PPI", "Sl", "M", "Any", "Arr", "B", "H", "Pt.T", "Emb.ES"}, "apath"),
				Op:   pickU(g, []string{"=", "!=", "<", "<=", ">", ">=", "~=", "", "==", "in", " =", "= ", "\t<", "!=\n", " ~= ", ">=\x00", "=="}, "aop"),
				V:    pickU(g, []Val{{K: "s", S: "a"}, {K: "i", I: 1}, {K: "u", U: 1}, {K: "f", F: 1}, {K: "nil"}, {K: "b"}, {K: "struct"}, {K: "s", S: "("}, {K: "t", T: baseTime}}, "aval"),
			})
		}
		prog.Aux = map[string]interface{}{"muts": muts, "args": args}
		guard(rt, prog, func() { caseC19(rt, prog) })
	})
}

func caseC19(t TB, prog *Program) {
	st := statsFor("C19")
	var muts []Mut
	var args []Leaf
	reJSON(prog.Aux["muts"], &muts)
	reJSON(prog.Aux["args"], &args)
	e := NewEnv(t, prog, RunOpts{SweepLevel: 1, Control: true})
	defer e.Teardown()

	fail := func(what string, p interface{}, stackTrace string, hung bool) {
		if p != nil && isRapidPanic(p) {
			panic(p) // a harness failure raised inside the protected call
		}
		if hung {
			e.failf("%s: call did not return within the watchdog period (hang)", what)
		}
		if p != nil {
			e.failf("%s: panic: %v\n%s", what, p, stackTrace)
		}
	}

	// (b) hostile argument triples on the empty collection, then after the history
	runArgs := func(when string) {
		for _, l := range args {
			q := Query{Leaves: []Leaf{l}}
			_, cls := e.m.Eval(q)
			var n int
			var serr, cerr error
			p, stk, hung := protect("search", func() {
				s := e.db.Search(&Doc{}, l.Path, l.Op, l.V.Iface(docPathIndex[l.Path]))
				serr = s.Err()
				var objs []sod.Object
				objs, cerr = s.Collect()
				n = len(objs)
			})
			fail(fmt.Sprintf("%s: Search(%q, %q, %s)", when, l.Path, l.Op, l.V), p, stk, hung)
			if cls != OK {
				e.flag("hostile-argument")
				if n > 0 {
					e.failf("%s: Search(%q, %q, %s) cannot be evaluated (%s) but returned %d objects (search err=%v collect err=%v)", when, l.Path, l.Op, l.V, cls, n, serr, cerr)
				}
			}
			// the same triple as a refinement of a valid search; And with something that
			// cannot be evaluated must not return objects either
			lefts := []Query{{Leaves: []Leaf{{Path: "I64", Op: "!=", V: Val{K: "i", I: -987654321}}}}}
			// a left-hand side that matches exactly one object, if there is one
			for _, id := range e.m.live {
				cand := Query{Leaves: []Leaf{{Path: "I64", Op: "=", V: Val{K: "i", I: e.m.objs[id].I64}}}}
				if set, c := e.m.Eval(cand); c == OK && len(set) == 1 {
					lefts = append(lefts, cand)
					break
				}
			}
			for ci, conn := range []string{"and", "or", "and", "or"} {
				conn := conn
				left := lefts[0]
				if ci >= 2 {
					if len(lefts) < 2 {
						break
					}
					left = lefts[1]
				}
				var nn int
				p, stk, hung := protect("chain", func() {
					s := e.runQuery(e.db, left)
					if conn == "and" {
						s = s.And(l.Path, l.Op, l.V.Iface(docPathIndex[l.Path]))
					} else {
						s = s.Or(l.Path, l.Op, l.V.Iface(docPathIndex[l.Path]))
					}
					objs, _ := s.Collect()
					nn = len(objs)
				})
				fail(fmt.Sprintf("%s: Search(valid).%s(%q, %q, %s)", when, conn, l.Path, l.Op, l.V), p, stk, hung)
				// (Or with a right-hand side that evaluates to nothing legitimately keeps the left-hand
				// matches, e.g. a pattern on a numeric field: only And is judged on its result)
				if conn == "and" && cls != OK && nn > 0 {
					e.failf("%s: Search(valid).%s(%q, %q, %s) cannot be evaluated (%s) but returned %d objects", when, conn, l.Path, l.Op, l.V, cls, nn)
				}
			}
		}
		// an unknown connective turns the search into an error
		for _, bad := range []string{"xor", "", "&", "and or"} {
			bad := bad
			var nbad int
			var berr error
			p, stk, hung := protect("operation", func() {
				s := e.db.Search(&Doc{}, "I64", "!=", int64(-987654321)).Operation(bad, "I64", "=", int64(1))
				berr = s.Err()
				objs, _ := s.Collect()
				nbad = len(objs)
			})
			fail(fmt.Sprintf("%s: Search(valid).Operation(%q, ...)", when, bad), p, stk, hung)
			if berr == nil || nbad > 0 {
				e.failf("%s: Search(valid).Operation(%q, ...) is not evaluable but Err()=%v and Collect returned %d objects", when, bad, berr, nbad)
			}
		}
		// a search template that carries values: the interface{} field then has a type to
		// search with, while stored objects hold other dynamic types (or nothing) in it
		for _, probe := range []interface{}{"a", int64(1), 1.5} {
			probe := probe
			var objs []sod.Object
			p, stk, hung := protect("search on the interface field", func() {
				objs, _ = e.db.Search(&Doc{Any: probe, S: "tmpl", I64: 7}, "Any", "=", probe).Collect()
			})
			fail(fmt.Sprintf("%s: Search(template with Any=%T, \"Any\", \"=\", %v)", when, probe, probe), p, stk, hung)
			wantAny := probe
			if sv, ok := probe.(string); ok {
				wantAny = canonCase(e.cfg.Cons["Any"], sv)
			}
			for _, o := range objs {
				if m, ok := e.m.objs[o.UUID()]; !ok || fmt.Sprint(m.Any) != fmt.Sprint(wantAny) {
					e.failf("%s: Search(template with Any=%T, \"Any\", \"=\", %v) returned %s", when, probe, probe, e.docLine(o))
				}
			}
			e.flag("search-on-interface-field-with-valued-template")
		}
		// after failed searches every call must still return (no lock left behind)
		if len(args) > 0 {
			p, stk, hung := protect("write after failed searches", func() {
				d := &Doc{S: "probe-after-failed-search"}
				if err := e.db.InsertOrUpdate(d); err == nil {
					e.db.Delete(d)
				}
			})
			fail(when+": InsertOrUpdate+Delete after the hostile searches", p, stk, hung)
		}
	}
	runArgs("empty collection")
	p, stk, hung := protect("history", func() { e.Run() })
	fail("history", p, stk, hung)
	runArgs("after history")
	if e.cfg.Async != nil {
		e.db.FlushAllAndCommit(&Doc{})
	}
	e.db.Close()
	e.db = nil

	// ---- damage
	dir := e.collDir()
	suffix := e.cfg.Ext
	if e.cfg.Compress {
		suffix += ".gz"
	}
	onlyStray := true
	for _, m := range muts {
		switch m.Target {
		case "entry":
			switch m.Kind {
			case "nodot":
				os.WriteFile(filepath.Join(dir, "README"), []byte("hello"), 0600)
			case "subdir":
				os.MkdirAll(filepath.Join(dir, "sub.dir", "x"), 0700)
			case "symlink":
				os.Symlink("/nonexistent/target", filepath.Join(dir, "link.json"))
			case "nodotuuid":
				os.WriteFile(filepath.Join(dir, seedUUID(0x77)), []byte("{}"), 0600)
				onlyStray = false
			case "uuiddir":
				os.MkdirAll(filepath.Join(dir, seedUUID(0x78)+suffix), 0700)
				onlyStray = false
			case "foreignext":
				os.WriteFile(filepath.Join(dir, seedUUID(0x79)+".bak"), []byte("{}"), 0600)
				onlyStray = false
			case "empty":
				os.WriteFile(filepath.Join(dir, seedUUID(0x7a)+suffix), nil, 0600)
				onlyStray = false
			}
			e.flag("stray-entry-" + m.Kind)
		case "schema", "object":
			path := filepath.Join(dir, "schema.json")
			gzipped := false
			if m.Target == "object" {
				if len(e.m.live) == 0 {
					continue
				}
				id := e.m.live[m.Ref%len(e.m.live)]
				path = filepath.Join(dir, id+suffix)
				gzipped = e.cfg.Compress
			}
			raw, err := os.ReadFile(path)
			if err != nil {
				continue
			}
			body := raw
			if gzipped && m.Kind == "tree" {
				if body, err = gunzip(raw); err != nil {
					continue
				}
			}
			var out []byte
			if m.Kind == "tree" {
				var ok bool
				if out, ok = mutateTree(body, m.Node, m.Repl); ok {
					e.flag("mutation-keeps-valid-json")
					e.flag("tree-" + m.Repl)
					if gzipped {
						out = gz(out)
					}
				} else {
					out = mutateBytes(raw, "flip", m.Off)
				}
			} else {
				out = mutateBytes(raw, m.Kind, m.Off)
				e.flag("byte-" + m.Kind)
			}
			os.WriteFile(path, out, 0700)
			onlyStray = false
			e.flag("damaged-" + m.Target)
		}
	}
	if len(muts) == 0 {
		e.flag("undamaged")
	}

	// ---- battery under recover + watchdog
	sod.LowercaseNames = e.cfg.Lower
	var db *sod.DB
	call := func(name string, f func() error) error {
		var err error
		p, stk, hung := protect(name, func() { err = f() })
		fail("battery/"+name, p, stk, hung)
		return err
	}
	db = sod.Open(e.root)
	defer func() { protect("close", func() { db.Close() }) }()
	firstErr := call("first load (Count)", func() error { _, err := db.Count(&Doc{}); return err })
	call("Control", func() error { return db.Control() })
	call("Schema", func() error { _, err := db.Schema(&Doc{}); return err })
	call("Count", func() error { _, err := db.Count(&Doc{}); return err })
	call("All", func() error {
		all, err := db.All(&Doc{})
		// All either fails or returns the collection: not a silent part of it
		if n, cerr := db.Count(&Doc{}); err == nil && cerr == nil && len(all) != n {
			e.failf("battery: the collection holds %d objects; All returned %d without error (damage: %s)", n, len(all), canon(muts))
		}
		return err
	})
	// a search over an unindexed path reads every object file: either it fails, or it has looked
	// at every object (x >= 0 and x < 0 together cover the collection) - never a silent part of it
	for _, p := range castable {
		if p.Class != ClsInt || p.Time || e.cfg.Cons[p.Path] != (Cons{}) || strings.Contains(p.Path, "Pt.") {
			continue
		}
		var n, ge, lt int
		var errs [3]error
		call("scan "+p.Path, func() error {
			n, errs[0] = db.Count(&Doc{})
			s1 := db.Search(&Doc{}, p.Path, ">=", valOfNorm(norm{cls: ClsInt}, p).Iface(p))
			o1, err1 := s1.Collect()
			s2 := db.Search(&Doc{}, p.Path, "<", valOfNorm(norm{cls: ClsInt}, p).Iface(p))
			o2, err2 := s2.Collect()
			ge, lt, errs[1], errs[2] = len(o1), len(o2), err1, err2
			return nil
		})
		if errs[0] == nil && errs[1] == nil && errs[2] == nil && ge+lt != n {
			e.failf("battery: the collection holds %d objects; Search(%s >= 0) returned %d and Search(%s < 0) returned %d, both without error: a scan stopped silently (damage: %s)", n, p.Path, ge, p.Path, lt, canon(muts))
		}
		e.flag("scan-covers-collection-or-fails")
		break
	}
	for _, id := range e.allIDs {
		id := id
		call("Get", func() error { d := &Doc{}; d.Initialize(id); _, err := db.Get(d); return err })
		call("Exist", func() error { d := &Doc{}; d.Initialize(id); _, err := db.Exist(d); return err })
	}
	searchPaths := []string{"S", "I64", "Pt.S", "T"}
	for _, p := range e.cfg.IndexedPaths() {
		searchPaths = append(searchPaths, p.Path)
	}
	for _, sp := range searchPaths {
		pi := docPathIndex[sp]
		for _, op := range []string{"=", "<", ">=", "!="} {
			sp, op := sp, op
			call("Search "+sp+op, func() error {
				s := db.Search(&Doc{}, sp, op, valOfNorm(norm{cls: pi.Class}, pi).Iface(pi))
				s.Len()
				_, err := s.Collect()
				return err
			})
		}
		if !strings.Contains(canon(muts), `"schema"`) {
			// on a damaged schema index values may no longer fit the target slice:
			// that is the documented AssignIndex panic, not provoked here
			call("AssignIndex "+sp, func() error { return e.assignIndexErr(db, pi) })
		}
	}
	call("InsertOrUpdate", func() error { d := &Doc{S: "fresh", I64: 424242}; return db.InsertOrUpdate(d) })
	// probes of every class on every searched path, also after the insert above (a forged cast
	// in an empty index only matters once the index holds a value)
	for _, sp := range searchPaths {
		for _, pv := range []interface{}{"five", int64(5), uint64(5), 5.5, baseTime, nil} {
			sp, pv := sp, pv
			call("Search mistyped "+sp, func() error {
				s := db.Search(&Doc{}, sp, "<=", pv)
				s.Len()
				_, err := s.Collect()
				s.And(sp, ">", pv).Collect()
				return err
			})
		}
	}
	call("InsertOrUpdateMany", func() error {
		_, err := db.InsertOrUpdateMany(&Doc{S: "m1", I64: 424243}, &Doc{S: "m2", I64: 424244})
		return err
	})
	if len(e.m.live) > 0 {
		call("Delete", func() error { d := &Doc{}; d.Initialize(e.m.live[0]); return db.Delete(d) })
	}
	call("Search.Delete", func() error { return db.Search(&Doc{}, "S", "=", "fresh").Delete() })
	call("Repair", func() error { return db.Repair(&Doc{}) })
	call("Control after Repair", func() error { return db.Control() })
	call("DeleteAll", func() error { return db.DeleteAll(&Doc{}) })
	call("Close", func() error { return db.Close() })
	db = sod.Open(e.root)
	call("reopen Count", func() error { _, err := db.Count(&Doc{}); return err })
	call("Create", func() error { return db.Create(&Doc{}, e.cfg.Schema()) })

	// only stray entries (or nothing): the database itself is undamaged
	if onlyStray && firstErr != nil {
		e.failf("only non uuid-named stray entries were added (%s) but the first load fails: %v", canon(muts), firstErr)
	}
	if onlyStray {
		e.flag("only-stray-or-undamaged")
	}
	cfgFlags(e)
	nt := e.flags["mutation-keeps-valid-json"] > 0 || e.flags["hostile-argument"] > 0 || strings.Contains(canon(muts), `"entry"`)
	st.Case(prog.Hash(), nt, e.flags, func() interface{} { return prog })
}

func (e *Env) assignIndexErr(db *sod.DB, p PathInfo) error {
	switch {
	case p.Time:
		var v []time.Time
		return db.AssignIndex(&Doc{}, p.Path, &v)
	case p.Class == ClsInt:
		var v []int64
		return db.AssignIndex(&Doc{}, p.Path, &v)
	case p.Class == ClsUint:
		var v []uint64
		return db.AssignIndex(&Doc{}, p.Path, &v)
	case p.Class == ClsFloat:
		var v []float64
		return db.AssignIndex(&Doc{}, p.Path, &v)
	}
	var v []string
	return db.AssignIndex(&Doc{}, p.Path, &v)
}

func init() {
	replayers["C19"] = func(t *testing.T, prog *Program) { guardT(t, prog, func() { caseC19(t, prog) }) }
}
