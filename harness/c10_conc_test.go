package props

import (
	"flag"
	"fmt"
	"strconv"
	"sync"
	"sync/atomic"
	"testing"
	"time"

	"github.com/0xrawsec/sod"
	"github.com/0xrawsec/sod/vshim"
	"pgregory.net/rapid"
)

// TestC10Readers: pending writes reach disk by threshold / timeout even while
// readers keep the handle busy all the time (the flusher must not depend on a
// moment without readers). Scaled real clock (x20), generous real-time bound.
func TestC10Readers(t *testing.T) {
	if !instrumented() {
		t.Skip("needs the instrumented build")
	}
	st := statsFor("C10")
	// each case spins up to 8 readers on every core: a quarter of the usual case count
	if f := flag.Lookup("rapid.checks"); f != nil {
		old := f.Value.String()
		if n, err := strconv.Atoi(old); err == nil {
			flag.Set("rapid.checks", strconv.Itoa(1+n/4))
			defer flag.Set("rapid.checks", old)
		}
	}
	rapid.Check(t, func(rt *rapid.T) {
		g := NewG(rt, &Profile{Property: "C10", TinyBias: 60})
		cfg := Config{Ext: ".json", Cache: g.pct("cache") < 50, Compress: g.pct("compress") < 30,
			Async: &AsyncCfg{Threshold: 1 + g.uni(5, "thr"), TimeoutMs: 100 * (1 + g.uni(5, "to"))},
			Cons:  map[string]Cons{"I64": {Index: true}}}
		prog := &Program{Property: "C10", Cfg: cfg, Aux: map[string]interface{}{
			"readers": 2 + g.uni(7, "readers"), "kinds": g.uni(4, "kinds"), "prefill": g.uni(6, "prefill"), "byTimeout": g.pct("bytimeout") < 40}}
		guard(rt, prog, func() { caseC10Readers(rt, prog) })
	})
	_ = st
}

func auxInt(m map[string]interface{}, k string) int {
	switch v := m[k].(type) {
	case int:
		return v
	case float64:
		return int(v)
	}
	return 0
}

func caseC10Readers(t TB, prog *Program) {
	st := statsFor("C10")
	nReaders, kinds, prefill := auxInt(prog.Aux, "readers"), auxInt(prog.Aux, "kinds"), auxInt(prog.Aux, "prefill")
	byTimeout, _ := prog.Aux["byTimeout"].(bool)
	vshim.ResetClock()
	vshim.SetClock(vshim.ClockScaled, 20)
	defer vshim.SetClock(vshim.ClockReal, 1)
	e := NewEnv(t, prog, RunOpts{NoObs: true})
	defer e.Teardown()
	db := e.db
	for i := 0; i < prefill; i++ {
		if err := db.InsertOrUpdate(&Doc{I64: int64(i), S: "prefill"}); err != nil {
			e.failf("prefill: %v", err)
		}
	}
	if err := db.FlushAllAndCommit(&Doc{}); err != nil {
		e.failf("FlushAllAndCommit: %v", err)
	}
	var stop int32
	var iterations int64
	var wg sync.WaitGroup
	for r := 0; r < nReaders; r++ {
		r := r
		wg.Add(1)
		go func() {
			defer wg.Done()
			for atomic.LoadInt32(&stop) == 0 {
				switch (r + kinds) % 4 {
				case 0:
					db.All(&Doc{})
				case 1:
					db.Search(&Doc{}, "S", "=", "prefill").Collect() // unindexed: full scan
				case 2:
					db.Count(&Doc{})
					db.Search(&Doc{}, "I64", ">=", int64(0)).Len()
				default:
					var v []int64
					db.AssignIndex(&Doc{}, "I64", &v)
					db.All(&Doc{})
				}
				atomic.AddInt64(&iterations, 1)
			}
		}()
	}
	defer func() { atomic.StoreInt32(&stop, 1); wg.Wait() }()
	time.Sleep(2 * time.Millisecond) // readers are spinning
	// the writes whose flush is awaited
	n := e.cfg.Async.Threshold
	if byTimeout && n > 1 {
		n-- // below the threshold: only the timeout can flush them
	}
	var ids []string
	for i := 0; i < n; i++ {
		d := &Doc{I64: int64(1000 + i), S: "awaited"}
		if err := db.InsertOrUpdate(d); err != nil {
			e.failf("insert: %v", err)
		}
		ids = append(ids, d.UUID())
	}
	onDisk := func() int {
		w := WalkDir(e.collDir())
		k := 0
		for _, id := range ids {
			if f, ok := w.Objects[id]; ok && f.Err == "" && len(f.Body) > 0 {
				k++
			}
		}
		return k
	}
	// database time runs 20x faster: the timeout is at most 500 ms = 25 ms real, a poll step 5 ms real.
	// 20 s real = 400 s of database time without a flush while readers never pause is a violation.
	deadline := time.Now().Add(20 * time.Second) // (6 s would do; the rest is patience with a loaded machine)
	for onDisk() < len(ids) && time.Now().Before(deadline) {
		time.Sleep(2 * time.Millisecond)
	}
	got, its := onDisk(), atomic.LoadInt64(&iterations)
	if got < len(ids) {
		if its < 50 {
			st.Add("inconclusive_readers_too_slow", 1) // the machine is too loaded to say anything
			return
		}
		e.failf("%d readers kept the handle busy (%d calls completed); %d accepted writes (threshold %d, timeout %d ms) were pending for 20 s of real time = 400 s of database time, only %d of them reached the disk", nReaders, its, len(ids), e.cfg.Async.Threshold, e.cfg.Async.TimeoutMs, got)
	}
	flags := map[string]int{"flush-while-readers-busy": 1, fmt.Sprintf("readers-%d", nReaders): 1}
	if byTimeout {
		flags["flushed-by-timeout-under-readers"] = 1
	} else {
		flags["flushed-by-threshold-under-readers"] = 1
	}
	st.Case(prog.Hash(), true, flags, func() interface{} { return prog })
	_ = sod.Open
}

func init() {
	replayAlts = append(replayAlts, replayAlt{"C10", hasAux("readers"), func(t *testing.T, prog *Program) {
		guardT(t, prog, func() { caseC10Readers(t, prog) })
	}})
}

// TestC10Switch: async writes are switched off and on again through Create, back to back, on a
// real (scaled) clock while many writes are pending - so the flusher of the old settings is
// still on its way out when the new settings arrive. Writes accepted afterwards must reach the
// disk by threshold or timeout without any further call.
func TestC10Switch(t *testing.T) {
	if !instrumented() {
		t.Skip("needs the instrumented build")
	}
	if f := flag.Lookup("rapid.checks"); f != nil {
		old := f.Value.String()
		if n, err := strconv.Atoi(old); err == nil {
			flag.Set("rapid.checks", strconv.Itoa(1+n/4))
			defer flag.Set("rapid.checks", old)
		}
	}
	rapid.Check(t, func(rt *rapid.T) {
		g := NewG(rt, &Profile{Property: "C10", TinyBias: 60})
		cfg := Config{Ext: ".json", Cache: g.pct("cache") < 50,
			Async: &AsyncCfg{Threshold: 100000, TimeoutMs: 3600000},
			Cons:  map[string]Cons{"I64": {Index: true}}}
		var toggles []int // 0: off, n>0: on with timeout n*100 ms
		for i, k := 0, 1+g.uni(3, "ntoggles"); i < k; i++ {
			toggles = append(toggles, 0, 1+g.uni(5, "to"))
		}
		prog := &Program{Property: "C10", Cfg: cfg, Aux: map[string]interface{}{
			"switch": toggles, "pending": pickU(g, []int{0, 3, 300, 1500, 4000}, "pending"), "thr": 1 + g.uni(5, "thr"), "byTimeout": g.pct("bytimeout") < 50,
			"pause": pickU(g, []int{0, 0, 1, 20}, "pause")}}
		guard(rt, prog, func() { caseC10Switch(rt, prog) })
	})
}

func caseC10Switch(t TB, prog *Program) {
	st := statsFor("C10")
	var toggles []int
	reJSON(prog.Aux["switch"], &toggles)
	pending, thr, pause := auxInt(prog.Aux, "pending"), auxInt(prog.Aux, "thr"), auxInt(prog.Aux, "pause")
	byTimeout, _ := prog.Aux["byTimeout"].(bool)
	vshim.ResetClock()
	vshim.SetClock(vshim.ClockScaled, 20)
	defer vshim.SetClock(vshim.ClockReal, 1)
	e := NewEnv(t, prog, RunOpts{NoObs: true})
	defer e.Teardown()
	db := e.db
	// many writes pending under settings that never flush on their own
	var batch []sod.Object
	for i := 0; i < pending; i++ {
		batch = append(batch, &Doc{I64: int64(i), S: "pending"})
	}
	if len(batch) > 0 {
		if _, err := db.InsertOrUpdateMany(batch...); err != nil {
			e.failf("prefill: %v", err)
		}
	}
	time.Sleep(time.Duration(pause) * time.Millisecond)
	lastTo := 0
	for _, tg := range toggles {
		c := e.cfg
		if tg == 0 {
			c.Async = nil
		} else {
			c.Async = &AsyncCfg{Threshold: thr, TimeoutMs: 100 * tg}
			lastTo = 100 * tg
		}
		if err := db.Create(&Doc{}, c.Schema()); err != nil {
			e.failf("Create (async %v): %v", tg != 0, err)
		}
	}
	n := thr
	if byTimeout && n > 1 {
		n--
	}
	var ids []string
	for i := 0; i < n; i++ {
		d := &Doc{I64: int64(100000 + i), S: "awaited"}
		if err := db.InsertOrUpdate(d); err != nil {
			e.failf("insert: %v", err)
		}
		ids = append(ids, d.UUID())
	}
	onDisk := func() int {
		w := WalkDir(e.collDir())
		k := 0
		for _, id := range ids {
			if f, ok := w.Objects[id]; ok && f.Err == "" && len(f.Body) > 0 {
				k++
			}
		}
		return k
	}
	// no further call; database time runs 20x faster (timeout <= 500 ms = 25 ms real)
	deadline := time.Now().Add(20 * time.Second) // (6 s would do; the rest is patience with a loaded machine)
	for onDisk() < len(ids) && time.Now().Before(deadline) {
		time.Sleep(2 * time.Millisecond)
	}
	if got := onDisk(); got < len(ids) {
		e.failf("async writes were switched off and on again (%v; %d writes pending before, threshold now %d, timeout now %d ms); %d writes accepted afterwards waited 20 s of real time = 400 s of database time without any further call, %d of them reached the disk", toggles, pending, thr, lastTo, len(ids), got)
	}
	flags := map[string]int{"async-off-on-back-to-back": 1, fmt.Sprintf("pending-before-%d", pending): 1}
	st.Case(prog.Hash(), pending >= 300, flags, func() interface{} { return prog })
}

func init() {
	replayAlts = append(replayAlts, replayAlt{"C10", hasAux("switch"), func(t *testing.T, prog *Program) {
		guardT(t, prog, func() { caseC10Switch(t, prog) })
	}})
}

// TestC10Hammer: several writers keep updating their own objects (each object has exactly one
// writer, so its last accepted value is known) while the flusher fires all the time on a scaled
// clock; hundreds of writes are pending at once. After Close a fresh handle must read, for every
// object, the last value its writer got accepted - no update may be overtaken by an older copy
// on its way to the disk.
func TestC10Hammer(t *testing.T) {
	if !instrumented() {
		t.Skip("needs the instrumented build")
	}
	if f := flag.Lookup("rapid.checks"); f != nil {
		old := f.Value.String()
		if n, err := strconv.Atoi(old); err == nil {
			flag.Set("rapid.checks", strconv.Itoa(1+n/20))
			defer flag.Set("rapid.checks", old)
		}
	}
	rapid.Check(t, func(rt *rapid.T) {
		g := NewG(rt, &Profile{Property: "C10", TinyBias: 60})
		cfg := Config{Ext: ".json", Cache: g.pct("cache") < 50, Compress: g.pct("compress") < 15,
			Async: &AsyncCfg{Threshold: pickU(g, []int{1, 5, 100, 1000, 100000}, "thr"), TimeoutMs: 100 * (1 + g.uni(3, "to"))},
			Cons:  map[string]Cons{"I64": {Index: true}}}
		prog := &Program{Property: "C10", Cfg: cfg, Aux: map[string]interface{}{
			"hammer": 2 + g.uni(5, "writers"), "objects": 40 + g.uni(160, "objects"), "ms": 60 + g.uni(200, "ms"), "batch": g.pct("batch") < 30}}
		guard(rt, prog, func() { caseC10Hammer(rt, prog) })
	})
}

func caseC10Hammer(t TB, prog *Program) {
	st := statsFor("C10")
	writers, perWriter, ms := auxInt(prog.Aux, "hammer"), auxInt(prog.Aux, "objects"), auxInt(prog.Aux, "ms")
	batch, _ := prog.Aux["batch"].(bool)
	vshim.ResetClock()
	vshim.SetClock(vshim.ClockScaled, 20)
	defer vshim.SetClock(vshim.ClockReal, 1)
	e := NewEnv(t, prog, RunOpts{NoObs: true})
	defer e.Teardown()
	db := e.db
	type slot struct {
		id   string
		last int64
	}
	slots := make([][]slot, writers)
	var wg sync.WaitGroup
	var failed atomic.Value
	var maxPending int64
	stop := time.Now().Add(time.Duration(ms) * time.Millisecond)
	for w := 0; w < writers; w++ {
		w := w
		slots[w] = make([]slot, perWriter)
		wg.Add(1)
		go func() {
			defer wg.Done()
			mine := slots[w]
			for round := int64(1); time.Now().Before(stop) || round <= 2; round++ {
				if batch && round%3 == 0 {
					var objs []sod.Object
					for i := range mine {
						d := &Doc{I64: int64(w), I: int(round), S: "hammer"}
						if mine[i].id != "" {
							d.Initialize(mine[i].id)
						}
						objs = append(objs, d)
					}
					if _, err := db.InsertOrUpdateMany(objs...); err != nil {
						failed.Store(fmt.Sprintf("InsertOrUpdateMany: %v", err))
						return
					}
					for i, o := range objs {
						mine[i] = slot{o.UUID(), round}
					}
					continue
				}
				for i := range mine {
					d := &Doc{I64: int64(w), I: int(round), S: "hammer"}
					if mine[i].id != "" {
						d.Initialize(mine[i].id)
					}
					if err := db.InsertOrUpdate(d); err != nil {
						failed.Store(fmt.Sprintf("InsertOrUpdate: %v", err))
						return
					}
					mine[i] = slot{d.UUID(), round}
				}
				if w == 0 {
					// how many objects lag behind on disk right now? (evidence only)
					if n, err := db.Count(&Doc{}); err == nil {
						if lag := int64(n - len(WalkDir(e.collDir()).Objects)); lag > atomic.LoadInt64(&maxPending) {
							atomic.StoreInt64(&maxPending, lag)
						}
					}
				}
			}
		}()
	}
	wg.Wait()
	if msg := failed.Load(); msg != nil {
		e.failf("%v", msg)
	}
	if err := db.Close(); err != nil {
		e.failf("Close: %v", err)
	}
	e.db = nil
	db2 := sod.Open(e.root)
	defer db2.Close()
	total := 0
	for w := range slots {
		for _, sl := range slots[w] {
			total++
			got, err := db2.GetByUUID(&Doc{}, sl.id)
			if err != nil {
				e.failf("after Close and Open: object %s of writer %d (last accepted update: round %d): %v", sl.id, w, sl.last, err)
			}
			if d := got.(*Doc); int64(d.I) != sl.last || d.I64 != int64(w) {
				e.failf("after Close and Open: object %s of writer %d holds round %d, the last update its writer got accepted was round %d (%d writers x %d objects, threshold %d, timeout %d ms)", sl.id, w, d.I, sl.last, writers, perWriter, e.cfg.Async.Threshold, e.cfg.Async.TimeoutMs)
			}
		}
	}
	if n, err := db2.Count(&Doc{}); err != nil || n != total {
		e.failf("after Close and Open: Count=%d err=%v, %d objects were stored", n, err, total)
	}
	if err := db2.Control(); err != nil {
		e.failf("after Close and Open: Control: %v", err)
	}
	flags := map[string]int{"writers-hammering-under-flusher": 1}
	if atomic.LoadInt64(&maxPending) > 256 {
		flags["more-than-256-writes-pending-at-once"] = 1
	}
	st.Case(prog.Hash(), writers*perWriter > 256, flags, func() interface{} { return prog })
}

func init() {
	replayAlts = append(replayAlts, replayAlt{"C10", hasAux("hammer"), func(t *testing.T, prog *Program) {
		guardT(t, prog, func() { caseC10Hammer(t, prog) })
	}})
}

// TestC10CloseRetry: Close meets ONE storage fault (every position of its file-system mutations
// is tried), reports it, and the application calls Close again once the storage works. A Close
// that returns nil has put every accepted write and a matching index on disk - whether it is the
// first Close or the second.
func TestC10CloseRetry(t *testing.T) {
	if !instrumented() {
		t.Skip("needs the instrumented build")
	}
	if f := flag.Lookup("rapid.checks"); f != nil {
		old := f.Value.String()
		if n, err := strconv.Atoi(old); err == nil {
			flag.Set("rapid.checks", strconv.Itoa(1+n/8))
			defer flag.Set("rapid.checks", old)
		}
	}
	rapid.Check(t, func(rt *rapid.T) {
		g := NewG(rt, &Profile{Property: "C10", TinyBias: 60, NoHugeStr: true})
		cfg := Config{Ext: ".json", Cache: g.pct("cache") < 50, Compress: g.pct("compress") < 20,
			Async: &AsyncCfg{Threshold: 1000000, TimeoutMs: 3600000 * 24}, Cons: map[string]Cons{"I64": {Index: true, Unique: true}}}
		if g.pct("sync") < 20 {
			cfg.Async = nil
		}
		prog := &Program{Property: "C10", Cfg: cfg, Aux: map[string]interface{}{"closeRetry": 1 + g.uni(5, "objects"), "updates": g.uni(3, "updates"), "commitFirst": g.pct("commitfirst") < 40}}
		guard(rt, prog, func() { caseC10CloseRetry(rt, prog) })
	})
}

func caseC10CloseRetry(t TB, prog *Program) {
	st := statsFor("C10")
	n, updates := auxInt(prog.Aux, "closeRetry"), auxInt(prog.Aux, "updates")
	commitFirst, _ := prog.Aux["commitFirst"].(bool)
	one := -1
	if v, ok := prog.Aux["position"]; ok {
		one = int(v.(float64))
	}
	vshim.SetClock(vshim.ClockReal, 1)
	for k := 0; k < 400; k++ {
		if one >= 0 && k != one {
			continue
		}
		done := func() bool {
			e := NewEnv(t, prog, RunOpts{NoObs: true, PreOpen: func(root string) { vshim.Register(root, vshim.ModePass) }})
			defer func() { vshim.Disarm(e.root); vshim.Unregister(e.root); e.Teardown() }()
			want := map[string]int64{}
			var objs []*Doc
			for i := 0; i < n; i++ {
				d := &Doc{I64: int64(i), S: "v0"}
				if err := e.db.InsertOrUpdate(d); err != nil {
					e.failf("insert: %v", err)
				}
				objs = append(objs, d)
				want[d.UUID()] = int64(i)
			}
			if commitFirst {
				// the index is already on disk while the objects still wait (async)
				if err := e.db.Commit(&Doc{}); err != nil {
					e.failf("Commit: %v", err)
				}
			}
			for i := 0; i < updates && i < n; i++ {
				u := &Doc{I64: int64(100 + i), S: "v1"}
				u.Initialize(objs[i].UUID())
				if err := e.db.InsertOrUpdate(u); err != nil {
					e.failf("update: %v", err)
				}
				want[u.UUID()] = int64(100 + i)
			}
			prog.Aux["position"] = k
			vshim.Arm(e.root, k, false)
			err1 := e.db.Close()
			_, fired := vshim.Disarm(e.root)
			db := e.db
			e.db = nil
			if !fired {
				delete(prog.Aux, "position")
				return true // positions exhausted
			}
			acknowledged := err1 == nil
			if err1 != nil {
				if k%2 == 1 && n > 0 {
					// before trying again the application writes once more (accepted or not)
					u := &Doc{I64: 7000, S: "after-failed-close"}
					u.Initialize(objs[n-1].UUID())
					if db.InsertOrUpdate(u) == nil {
						want[u.UUID()] = 7000
					}
				}
				acknowledged = db.Close() == nil // the application tries again
			}
			flags := map[string]int{"close-met-a-storage-fault": 1}
			if err1 == nil {
				flags["close-swallowed-the-fault"] = 1
			}
			if acknowledged {
				db2 := sod.Open(e.root)
				cnt, lerr := db2.Count(&Doc{})
				if lerr != nil || cnt != len(want) {
					db2.Close()
					e.failf("Close failed once at its fs mutation %d (%v), %s; a new handle counts %d objects (err=%v), %d writes had been accepted", k, err1, map[bool]string{true: "the first Close returned nil all the same", false: "the second Close returned nil"}[err1 == nil], cnt, lerr, len(want))
				}
				for id, v := range want {
					got, gerr := db2.GetByUUID(&Doc{}, id)
					if gerr != nil || got.(*Doc).I64 != v {
						db2.Close()
						e.failf("Close failed once at its fs mutation %d (%v) and then returned nil; a new handle reads object %s: err=%v (accepted value %d)", k, err1, id, gerr, v)
					}
				}
				if cerr := db2.Control(); cerr != nil {
					db2.Close()
					e.failf("Close failed once at its fs mutation %d (%v) and then returned nil; Control on a new handle: %v", k, err1, cerr)
				}
				db2.Close()
				flags["close-acknowledged-after-a-fault"] = 1
			}
			delete(prog.Aux, "position")
			st.Case(prog.Hash()^uint64((k+1)*2654435761), true, flags, func() interface{} {
				return map[string]interface{}{"program": prog, "fault_position": k}
			})
			return false
		}()
		if done {
			break
		}
	}
}

func init() {
	replayAlts = append(replayAlts, replayAlt{"C10", hasAux("closeRetry"), func(t *testing.T, prog *Program) {
		guardT(t, prog, func() { caseC10CloseRetry(t, prog) })
	}})
}
