package props

import (
	"flag"
	"fmt"
	"strconv"
	"sync"
	"sync/atomic"
	"testing"
	"time"

	"github.com/0xrawsec/sod"
	"github.com/0xrawsec/sod/vshim"
	"pgregory.net/rapid"
)

// TestC10Readers: pending writes reach disk by threshold / timeout even while
// readers keep the handle busy all the time (the flusher must not depend on a
// moment without readers). Scaled real clock (x20), generous real-time bound.
func TestC10Readers(t *testing.T) {
	if !instrumented() {
		t.Skip("needs the instrumented build")
	}
	st := statsFor("C10")
	// each case spins up to 8 readers on every core: a quarter of the usual case count
	if f := flag.Lookup("rapid.checks"); f != nil {
		old := f.Value.String()
		if n, err := strconv.Atoi(old); err == nil {
			flag.Set("rapid.checks", strconv.Itoa(1+n/4))
			defer flag.Set("rapid.checks", old)
		}
	}
	rapid.Check(t, func(rt *rapid.T) {
		g := NewG(rt, &Profile{Property: "C10", TinyBias: 60})
		cfg := Config{Ext: ".json", Cache: g.pct("cache") < 50, Compress: g.pct("compress") < 30,
			Async: &AsyncCfg{Threshold: 1 + g.uni(5, "thr"), TimeoutMs: 100 * (1 + g.uni(5, "to"))},
			Cons:  map[string]Cons{"I64": {Index: true}}}
		prog := &Program{Property: "C10", Cfg: cfg, Aux: map[string]interface{}{
			"readers": 2 + g.uni(7, "readers"), "kinds": g.uni(4, "kinds"), "prefill": g.uni(6, "prefill"), "byTimeout": g.pct("bytimeout") < 40}}
		guard(rt, prog, func() { caseC10Readers(rt, prog) })
	})
	_ = st
}

func auxInt(m map[string]interface{}, k string) int {
	switch v := m[k].(type) {
	case int:
		return v
	case float64:
		return int(v)
	}
	return 0
}

func caseC10Readers(t TB, prog *Program) {
	st := statsFor("C10")
	nReaders, kinds, prefill := auxInt(prog.Aux, "readers"), auxInt(prog.Aux, "kinds"), auxInt(prog.Aux, "prefill")
	byTimeout, _ := prog.Aux["byTimeout"].(bool)
	vshim.ResetClock()
	vshim.SetClock(vshim.ClockScaled, 20)
	defer vshim.SetClock(vshim.ClockReal, 1)
	e := NewEnv(t, prog, RunOpts{NoObs: true})
	defer e.Teardown()
	db := e.db
	for i := 0; i < prefill; i++ {
		if err := db.InsertOrUpdate(&Doc{I64: int64(i), S: "prefill"}); err != nil {
			e.failf("prefill: %v", err)
		}
	}
	if err := db.FlushAllAndCommit(&Doc{}); err != nil {
		e.failf("FlushAllAndCommit: %v", err)
	}
	var stop int32
	var iterations int64
	var wg sync.WaitGroup
	for r := 0; r < nReaders; r++ {
		r := r
		wg.Add(1)
		go func() {
			defer wg.Done()
			for atomic.LoadInt32(&stop) == 0 {
				switch (r + kinds) % 4 {
				case 0:
					db.All(&Doc{})
				case 1:
					db.Search(&Doc{}, "S", "=", "prefill").Collect() // unindexed: full scan
				case 2:
					db.Count(&Doc{})
					db.Search(&Doc{}, "I64", ">=", int64(0)).Len()
				default:
					var v []int64
					db.AssignIndex(&Doc{}, "I64", &v)
					db.All(&Doc{})
				}
				atomic.AddInt64(&iterations, 1)
			}
		}()
	}
	defer func() { atomic.StoreInt32(&stop, 1); wg.Wait() }()
	time.Sleep(2 * time.Millisecond) // readers are spinning
	// the writes whose flush is awaited
	n := e.cfg.Async.Threshold
	if byTimeout && n > 1 {
		n-- // below the threshold: only the timeout can flush them
	}
	var ids []string
	for i := 0; i < n; i++ {
		d := &Doc{I64: int64(1000 + i), S: "awaited"}
		if err := db.InsertOrUpdate(d); err != nil {
			e.failf("insert: %v", err)
		}
		ids = append(ids, d.UUID())
	}
	onDisk := func() int {
		w := WalkDir(e.collDir())
		k := 0
		for _, id := range ids {
			if f, ok := w.Objects[id]; ok && f.Err == "" && len(f.Body) > 0 {
				k++
			}
		}
		return k
	}
	// database time runs 20x faster: the timeout is at most 500 ms = 25 ms real, a poll step 5 ms real.
	// 6 s real = 2 minutes of database time without a flush while readers never pause is a violation.
	deadline := time.Now().Add(6 * time.Second)
	for onDisk() < len(ids) && time.Now().Before(deadline) {
		time.Sleep(2 * time.Millisecond)
	}
	got, its := onDisk(), atomic.LoadInt64(&iterations)
	if got < len(ids) {
		if its < 50 {
			st.Add("inconclusive_readers_too_slow", 1) // the machine is too loaded to say anything
			return
		}
		e.failf("%d readers kept the handle busy (%d calls completed); %d accepted writes (threshold %d, timeout %d ms) were pending for 6 s of real time = 120 s of database time, only %d of them reached the disk", nReaders, its, len(ids), e.cfg.Async.Threshold, e.cfg.Async.TimeoutMs, got)
	}
	flags := map[string]int{"flush-while-readers-busy": 1, fmt.Sprintf("readers-%d", nReaders): 1}
	if byTimeout {
		flags["flushed-by-timeout-under-readers"] = 1
	} else {
		flags["flushed-by-threshold-under-readers"] = 1
	}
	st.Case(prog.Hash(), true, flags, func() interface{} { return prog })
	_ = sod.Open
}

func init() {
	replayAlts = append(replayAlts, replayAlt{"C10", hasAux("readers"), func(t *testing.T, prog *Program) {
		guardT(t, prog, func() { caseC10Readers(t, prog) })
	}})
}
