package props

import (
	"fmt"
	"strings"
	"testing"

	"github.com/0xrawsec/sod"
	"github.com/0xrawsec/sod/vshim"
	"pgregory.net/rapid"
)

// ---------------------------------------------------------------- C06: rejected / failed writes

var propC06 = &modelProp{
	id: "C06",
	profile: func() *Profile {
		return &Profile{
			Property: "C06", MaxOps: pick(12, 28),
			W:          map[string]int{"insert": 8, "update": 8, "resave": 1, "delete": 2, "many": 4, "bulk": 2, "insertBad": 3, "updateBad": 3, "manyBad": 3, "insertOther": 1, "query": 2, "reopen": 1},
			AllowCache: true, AllowCompress: true, AllowAsync: true,
			MinUnique: 1, MaxUnique: 3, MaxIndexed: 2, CasePaths: 1,
			ConsPaths: []string{"S", "I64", "F64", "U8", "Pt.F", "In.F", "S2", "F32", "Emb.EN", "T", "In.T"},
			TinyBias:  70, BigBias: 8, HookBias: 35, RichShape: 5, MaxLeaves: 1,
		}
	},
	opts: RunOpts{SweepLevel: 1, SweepEveryOp: true, Control: true, Walk: true, FocusPaths: []string{"S", "F64"}},
	nt:   func(e *Env) bool { return e.flags["rejected-update"] > 0 },
	rule: "histories in which most writes are rejected: Validate failures (data-driven hooks), uniqueness conflicts on the 1st/2nd/3rd unique field (tiny value domains), batch members of another type, an insert into a collection that was never created, values that cannot be serialised (NaN, +Inf, -Inf in float fields, indexed / unique or not; a time.Time outside years 0-9999; a chan or func inside an interface{} field) in single and batch calls, with cache and async writes on and off. Oracle: the error class is the model's; after EVERY call - so in particular after every rejected one - the complete observation (Count, All, Get/GetByUUID/Exist of every uuid incl. cached reads, AssignIndex, search sweep, Control, and in sync mode the directory through the independent walker) equals the unchanged model. A quarter of the updates are read-modify-writes: the object handed to InsertOrUpdate is the very one a read (Get, All, Search) returned, modified in place - half of them on a handle restarted just before the read, so that the read is the first one of a cold handle; a rejected one must leave every read path unchanged. Storage half, in addition: after a failed single-object update the object reads as its old or its new value and the object count is unchanged (the no-rollback finding keeps the new state; anything else is reported); with the cache on All, Get and a search for the shown value agree per object; a faulted update is tried again and an acknowledged retry is on disk; a batch that returns a nil error has stored all its members. Non-trivial: >=1 rejected call that targets an already stored object (rejected update). Distinct by program hash.",
}

func init() { propC06.register() }

func TestC06(t *testing.T) { propC06.test(t) }

// ---------------------------------------------------------------- storage faults

func c06FaultProfile() *Profile {
	return &Profile{
		Property: "C06", MaxOps: pick(6, 10),
		W:          map[string]int{"insert": 8, "update": 5, "delete": 2, "many": 2},
		AllowCache: true, AllowCompress: true, ForceSync: true, AllowLower: true,
		MinIndexed: 1, MaxIndexed: 3, MaxUnique: 1,
		TinyBias: 60, BigBias: 8, HookBias: 0, RichShape: 5, MaxLeaves: 1, NoCopyItems: true,
	}
}

// TestC06Faults: every single storage fault position of a target call.
func TestC06Faults(t *testing.T) {
	if !instrumented() {
		t.Skip("needs the instrumented build")
	}
	st := statsFor("C06")
	prof := c06FaultProfile()
	rapid.Check(t, func(rt *rapid.T) {
		g := NewG(rt, prof)
		prog := g.Program()
		// the last op is the target; make sure it mutates
		target := Op{Op: pickU(g, []string{"insert", "update", "update", "delete", "many", "deleteAll", "searchDelete"}, "target")}
		switch target.Op {
		case "insert":
			target.D = g.Doc()
			target.D.H = Hooks{}
		case "update":
			target.Ref = g.uni(64, "ref")
			target.Sets = g.Sets()
		case "delete":
			target.Ref = g.uni(64, "ref")
		case "many":
			target.Items = g.Items(4)
		case "searchDelete":
			q := g.Query()
			q.Limit, q.Reverse, q.Consumer = nil, false, ""
			target.Q = q
		}
		prog.Ops = append(prog.Ops, target)
		prog.Aux = map[string]interface{}{"faults": true, "short": g.pct("short") < 30}
		guard(rt, prog, func() { caseC06Faults(rt, prog) })
	})
	_ = st
}

// rawTarget runs the target op directly (outcomes under faults are not the model's).
// result of the last InsertOrUpdateMany issued by rawTarget
var lastManyN, lastManyLen int

func rawTarget(e *Env, op *Op) (err error, applicable bool) {
	switch op.Op {
	case "insert":
		return e.db.InsertOrUpdate(cloneDoc(op.D)), true
	case "update":
		id, ok := e.liveRef(op.Ref)
		if !ok {
			return nil, false
		}
		d := cloneDoc(e.m.objs[id])
		applySets(d, op.Sets)
		d.Initialize(id)
		return e.db.InsertOrUpdate(d), true
	case "delete":
		id, ok := e.liveRef(op.Ref)
		if !ok {
			return nil, false
		}
		d := &Doc{}
		d.Initialize(id)
		return e.db.Delete(d), true
	case "deleteAll":
		return e.db.DeleteAll(&Doc{}), true
	case "searchDelete":
		s := e.runQuery(e.db, *op.Q)
		if s.Err() != nil {
			return nil, false
		}
		return s.Delete(), true
	case "many":
		args, _, _, _ := e.resolveItems(op.Items)
		if len(args) == 0 {
			return nil, false
		}
		n, err := e.db.InsertOrUpdateMany(args...)
		lastManyN, lastManyLen = n, len(args)
		return err, true
	}
	return nil, false
}

func caseC06Faults(t TB, prog *Program) {
	st := statsFor("C06")
	n := len(prog.Ops) - 1
	target := &prog.Ops[n]
	short, _ := prog.Aux["short"].(bool)
	one := -1
	if v, ok := prog.Aux["position"]; ok {
		one = int(v.(float64))
	}
	h := prog.Hash()
	for k := 0; k < 200; k++ {
		if one >= 0 && k != one {
			continue
		}
		done := func() bool {
			prefix := *prog
			prefix.Ops = prog.Ops[:n]
			opts := RunOpts{SweepLevel: 0, NoObs: true, PreOpen: func(root string) { vshim.Register(root, vshim.ModePass) }}
			e := NewEnv(t, &prefix, opts)
			defer func() { vshim.Unregister(e.root); e.Teardown() }()
			e.Run()
			e.prog = prog // failures name the complete case
			// what the model says the target does when nothing fails
			before := e.m.Clone()
			ghost := &Env{t: t, prog: prog, cfg: e.cfg, opts: RunOpts{NoObs: true}, ord: map[string]int{}, flags: map[string]int{}}
			_ = ghost
			prog.Aux["position"] = k
			vshim.SetTag(e.root, "target")
			vshim.Arm(e.root, k, short)
			err, applicable := rawTarget(e, target)
			count, fired := vshim.Disarm(e.root)
			if !applicable {
				delete(prog.Aux, "position")
				return true
			}
			if !fired {
				// positions exhausted: k >= number of mutations of the call
				st.Add("fault_positions_per_call_max", 0)
				delete(prog.Aux, "position")
				_ = count
				return true
			}
			excluded := checkAfterFault(e, before, target, err, k, st)
			delete(prog.Aux, "position")
			flags := map[string]int{"fault-" + target.Op: 1}
			if err == nil {
				flags["fault-swallowed-call-returned-nil"] = 1
			}
			if excluded {
				flags["excluded-known-finding"] = 1
			}
			if e.cfg.Cache {
				flags["cfg-cache"] = 1
			}
			if short {
				flags["short-write"] = 1
			}
			st.Case(h^uint64((k+1)*2654435761), true, flags, func() interface{} {
				return map[string]interface{}{"program": prog, "fault_position": k, "short_write": short}
			})
			return false
		}()
		if done {
			break
		}
	}
	st.Add("fault_histories", 1)
}

// checkAfterFault: after the k-th mutation of the target call failed.
func checkAfterFault(e *Env, before *Model, target *Op, err error, k int, st *Stats) (excluded bool) {
	where := fmt.Sprintf("storage fault at fs mutation %d of the final %s call (returned %v)", k, target.Op, err)
	if err == nil {
		// the failure was swallowed: outside the statement (it speaks about calls that return an
		// error) - but a batch that reports success has stored all its members
		if target.Op == "many" && lastManyN != lastManyLen {
			e.failf("%s: InsertOrUpdateMany returned a nil error although it stored only %d of its %d members", where, lastManyN, lastManyLen)
		}
		return false
	}
	st.Add("faulted_calls_returning_error", 1)
	known := func(key string) bool {
		if knownActive(key) {
			st.Exclude(key)
			return true
		}
		return false
	}
	// 1. the live handle: unchanged, or flagged by Control
	live := *e
	live.m = before
	live.opts = RunOpts{SweepLevel: 1}
	live.flags = map[string]int{}
	liveDiff := live.Diff()
	ctl := e.db.Control()
	// the call failed, so either nothing changed or Control reports the damage
	if len(liveDiff) > 0 && ctl == nil {
		if !known("failed-write-no-rollback") {
			if len(liveDiff) > 4 {
				liveDiff = liveDiff[:4]
			}
			e.failf("%s: on the live handle the state observable through reads and searches differs from before the call and Control reports nothing (silent divergence):\n%s", where, strings.Join(liveDiff, "\n"))
		}
		excluded = true
	}
	// 1z. whatever a failed single-object call leaves behind, the object is either what it was or
	// what the call wanted it to be - on every read path of the live handle. (The known finding is
	// "the new state is kept"; an object that is gone, or holds a third value, is something else.)
	if target.Op == "update" {
		if id, ok := e.liveRef(target.Ref); ok {
			d := cloneDoc(before.objs[id])
			applySets(d, target.Sets)
			want, tv := before.Clone().Upsert(d, id)
			probe := &Doc{}
			probe.Initialize(id)
			got, gerr := e.db.Get(probe)
			oldv := canon(before.objs[id])
			if gerr != nil {
				e.failf("%s: the object being updated (%s) can no longer be read on the live handle: %v (it was stored before the call)", where, e.tag(id), gerr)
			}
			if c := canon(got); c != oldv && !(want == OK && tv != nil && c == canon(tv)) {
				e.failf("%s: the object being updated (%s) reads %s on the live handle: neither its value before the call (%s) nor the value the call wanted to store", where, e.tag(id), c, oldv)
			}
			if n, cerr := e.db.Count(&Doc{}); cerr == nil && n != len(before.objs) {
				e.failf("%s: a failed update changed the number of stored objects from %d to %d", where, len(before.objs), n)
			}
			st.Add("single_object_old_or_new_checked", 1)
		}
	}
	// 1a. with the read cache on, whatever state the failed call left on the live handle is at
	// least ONE state: what All returns for an object is what Get returns, and a search for the
	// value All shows on an indexed path finds the object (the known finding - no rollback - keeps
	// the new state on every read path; half-old half-new is something else)
	if e.cfg.Cache && e.cfg.Async == nil {
		if all, aerr := e.db.All(&Doc{}); aerr == nil {
			for _, o := range all {
				probe := &Doc{}
				probe.Initialize(o.UUID())
				if got, gerr := e.db.Get(probe); gerr != nil || canon(got) != canon(o) {
					e.failf("%s: on the live handle All returns %s for %s but Get returns %v (err=%v)", where, canon(o), o.UUID(), got != nil && canon(got) == canon(o), gerr)
				}
				for _, p := range e.cfg.IndexedPaths() {
					n := normLeaf(o.(*Doc), p)
					objs, serr := e.db.Search(&Doc{}, p.Path, "=", valOfNorm(n, p).Iface(p)).Collect()
					found := false
					for _, x := range objs {
						found = found || x.UUID() == o.UUID()
					}
					if serr == nil && !found {
						e.failf("%s: on the live handle All/Get show %s = %s for object %s, but a search for that value does not find it: cached object and index disagree", where, p.Path, keyString(n), o.UUID())
					}
				}
			}
			st.Add("live_self_consistency_checked", 1)
		}
	}
	// 1b. the application tries again (synchronous update, the storage works again): an
	// acknowledged retry has written the object - its file holds what the handle reads
	if target.Op == "update" && e.cfg.Async == nil && k%2 == 0 {
		if id, ok := e.liveRef(target.Ref); ok {
			d := cloneDoc(e.m.objs[id])
			applySets(d, target.Sets)
			d.Initialize(id)
			if rerr := e.db.InsertOrUpdate(d); rerr == nil {
				probe := &Doc{}
				probe.Initialize(id)
				got, gerr := e.db.Get(probe)
				wf, onDisk := WalkDir(e.collDir()).Objects[id]
				if gerr != nil || !onDisk {
					e.failf("%s: the same update was tried again and acknowledged; Get err=%v, object file present=%v", where, gerr, onDisk)
				}
				if fd, derr := wf.Doc(); derr != nil || canon(fd) != canon(got) {
					e.failf("%s: the same update was tried again and acknowledged; the handle reads %s, the object file holds %v (err=%v)", where, canon(got), fd != nil && canon(fd) == canon(got), derr)
				}
				st.Add("acknowledged_retries_checked", 1)
			}
		}
	}
	// 2. a restarting application (the handle is abandoned, as after a crash)
	e.abandoned = append(e.abandoned, e.db)
	e.db = nil
	sod.LowercaseNames = e.cfg.Lower
	db := sod.Open(e.root)
	e.db = db
	first := db.Create(&Doc{}, e.cfg.Schema())
	if first != nil && !sod.IsIndexCorrupted(first) {
		e.failf("%s: reopening fails with %v, neither success nor index corruption", where, first)
	}
	w := WalkDir(e.collDir())
	fileModel := NewModel(e.cfg)
	for id, wf := range w.Objects {
		d, derr := wf.Doc()
		if derr != nil {
			e.failf("%s: object file %s left unreadable: %v", where, wf.Name, derr)
		}
		e.note(id)
		fileModel.objs[id] = d
		fileModel.live = append(fileModel.live, id)
	}
	if sod.IsIndexCorrupted(first) {
		if rerr := db.Repair(&Doc{}); rerr != nil {
			if sod.IsUnique(rerr) && known("stale-index-update-window") {
				return true
			}
			if sod.IsUnique(rerr) && excluded {
				return true // index entries the failed call left behind
			}
			e.failf("%s: corruption reported on reopen, but Repair fails: %v", where, rerr)
		}
		if cerr := db.Control(); cerr != nil {
			e.failf("%s: after Repair, Control returns %v", where, cerr)
		}
	}
	fresh := *e
	fresh.m = fileModel
	fresh.opts = RunOpts{SweepLevel: 1, Control: true}
	fresh.flags = map[string]int{}
	fresh.dirty = false
	if d := fresh.Diff(); len(d) > 0 {
		onlyIndex := true
		for _, line := range d {
			if !(strings.HasPrefix(line, "[q:") || strings.HasPrefix(line, "[qord:") || strings.HasPrefix(line, "[index:")) {
				onlyIndex = false
			}
		}
		if onlyIndex && known("stale-index-update-window") {
			return true
		}
		if len(d) > 4 {
			d = d[:4]
		}
		e.failf("%s: after reopening (and Repair if corruption was reported) reads and searches do not reflect file contents:\n%s", where, strings.Join(d, "\n"))
	}
	return excluded
}

func init() {
	replayAlts = append(replayAlts, replayAlt{"C06", hasAux("faults"), func(t *testing.T, prog *Program) {
		guardT(t, prog, func() { caseC06Faults(t, prog) })
	}})
}
