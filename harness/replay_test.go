package props

import (
	"encoding/json"
	"os"
	"testing"
)

// replayT adapts *testing.T to the engine.
type replayT struct{ *testing.T }

// TestReplay re-runs one saved program (VERIF_REPLAY=<file>) bypassing rapid.
func TestReplay(t *testing.T) {
	path := os.Getenv("VERIF_REPLAY")
	if path == "" {
		t.Skip("VERIF_REPLAY not set")
	}
	b, err := os.ReadFile(path)
	if err != nil {
		t.Fatal(err)
	}
	var wrap struct {
		Program *Program `json:"program"`
	}
	prog := &Program{}
	if err := json.Unmarshal(b, &wrap); err == nil && wrap.Program != nil {
		prog = wrap.Program
	} else if err := json.Unmarshal(b, prog); err != nil {
		t.Fatal(err)
	}
	// special case shapes first (registered from any file, independent of init order)
	for _, a := range replayAlts {
		if a.prop == prog.Property && a.match(prog) {
			a.run(t, prog)
			return
		}
	}
	run, ok := replayers[prog.Property]
	if !ok {
		t.Fatalf("no replayer for property %q", prog.Property)
	}
	run(t, prog)
}

var replayers = map[string]func(t *testing.T, prog *Program){}

type replayAlt struct {
	prop  string
	match func(p *Program) bool
	run   func(t *testing.T, prog *Program)
}

var replayAlts []replayAlt

func hasAux(key string) func(p *Program) bool {
	return func(p *Program) bool { _, ok := p.Aux[key]; return ok }
}

// guardT is guard for plain testing.T (replays): panics become failures.
func guardT(t *testing.T, prog *Program, body func()) {
	defer func() {
		if r := recover(); r != nil {
			t.Fatalf("panic: %v\n%s", r, stack())
		}
	}()
	body()
}
