package props

import (
	"regexp"
	"sort"
	"strings"
)

// ---------------------------------------------------------------- reference model
//
// Plain Go maps and straightforward predicates; never calls into sod.

type Model struct {
	cfg  Config
	objs map[string]*Doc // live objects (private copies, transformed values)
	live []string        // live uuids in creation order
	dead []string        // deleted uuids (not live now) in order of death
	last map[string]*Doc // last value of every object ever accepted
}

func NewModel(cfg Config) *Model {
	return &Model{cfg: cfg, objs: map[string]*Doc{}, last: map[string]*Doc{}}
}

func (m *Model) Clone() *Model {
	c := NewModel(m.cfg)
	for k, v := range m.objs {
		c.objs[k] = cloneDoc(v)
	}
	for k, v := range m.last {
		c.last[k] = cloneDoc(v)
	}
	c.live = append([]string(nil), m.live...)
	c.dead = append([]string(nil), m.dead...)
	return c
}

// outcome classes
const (
	OK        = "ok"
	EInvalid  = "invalid"
	EUnique   = "unique"
	EType     = "wrongtype"
	ENotExist = "notexist"
	ECasting  = "casting"
	EField    = "unknownfield"
	EOperator = "unknownop"
	ENoObject = "noobject"
	ERegex    = "badregex"
	EOther    = "error"
	EUnspec   = "unspecified" // well-typed but outside every ordering (NaN probe): not judged
)

func canonCase(c Cons, s string) string {
	if c.Upper {
		s = strings.ToUpper(s)
	}
	if c.Lower {
		s = strings.ToLower(s)
	}
	return s
}

// applyCase applies the schema's upper/lower constraints to d in place.  A nil
// pointer on the way is left alone (nothing to canonicalise).
func (m *Model) applyCase(d *Doc) {
	for path, c := range m.cfg.Cons {
		if !c.Upper && !c.Lower {
			continue
		}
		if path == "Any" {
			if sv, ok := d.Any.(string); ok {
				d.Any = canonCase(c, sv)
			}
			continue
		}
		p := docPathIndex[path]
		if p.Class != ClsStr {
			continue
		}
		if throughNil(d, path) {
			continue
		}
		lv := leafForSet(d, path)
		lv.SetString(canonCase(c, lv.String()))
	}
}

func throughNil(d *Doc, path string) bool {
	parts := strings.Split(path, ".")
	if len(parts) > 1 && parts[0] == "Pt" {
		return d.Pt == nil
	}
	return false
}

// prepare = Transform -> schema case transforms -> Validate, on a private copy.
func (m *Model) prepare(d *Doc) string {
	d.Transform()
	m.applyCase(d)
	if err := d.Validate(); err != nil {
		return EInvalid
	}
	return OK
}

// conflicts reports whether d (with uuid id) collides on a unique path with any
// object of state other than itself.
func (m *Model) conflicts(d *Doc, id string, state map[string]*Doc) bool {
	for _, p := range m.cfg.UniquePaths() {
		nv := normLeaf(d, p)
		for oid, o := range state {
			if oid == id {
				continue
			}
			if normLeaf(o, p).cmp(nv) == 0 {
				return true
			}
		}
	}
	return false
}

func (m *Model) store(id string, d *Doc) {
	d.Initialize(id)
	if _, ok := m.objs[id]; !ok {
		m.live = append(m.live, id)
		// resurrecting a deleted id
		for i, x := range m.dead {
			if x == id {
				m.dead = append(m.dead[:i], m.dead[i+1:]...)
				break
			}
		}
	}
	m.objs[id] = d
	m.last[id] = cloneDoc(d)
}

// Upsert decides a single InsertOrUpdate of (a private copy of) d.  id == ""
// means a new object; the caller stores under the uuid sod assigned.
// It returns the outcome and the transformed value (valid when OK).
func (m *Model) Upsert(d *Doc, id string) (string, *Doc) {
	c := cloneDoc(d)
	c.Initialize(id)
	if out := m.prepare(c); out != OK {
		return out, c
	}
	if m.conflicts(c, id, m.objs) {
		return EUnique, c
	}
	return OK, c
}

func (m *Model) Delete(id string) {
	if _, ok := m.objs[id]; !ok {
		return
	}
	delete(m.objs, id)
	for i, x := range m.live {
		if x == id {
			m.live = append(m.live[:i], m.live[i+1:]...)
			break
		}
	}
	m.dead = append(m.dead, id)
}

// ---------------------------------------------------------------- search predicates

var validOps = map[string]bool{"=": true, "!=": true, "<": true, "<=": true, ">": true, ">=": true, "~=": true}

// evalLeaf returns the set of matching uuids, or an error class when the leaf
// cannot be evaluated.
func (m *Model) evalLeaf(l Leaf) (map[string]bool, string) {
	p, ok := docPathIndex[l.Path]
	if !ok {
		return nil, EField
	}
	if p.Class == ClsNone {
		return nil, EOther
	}
	if l.V.Class() != p.Class {
		return nil, ECasting
	}
	if !validOps[l.Op] {
		return nil, EOperator
	}
	if l.V.K == "nan" {
		return nil, EUnspec
	}
	probe := normVal(l.V)
	if p.Class == ClsStr {
		probe.s = canonCase(m.cfg.Cons[l.Path], probe.s)
	}
	var rex *regexp.Regexp
	if l.Op == "~=" {
		if p.Class != ClsStr {
			return nil, EOther // regex on a non-string: outside the well-typed domain
		}
		var err error
		if rex, err = regexp.Compile(probe.s); err != nil {
			return nil, ERegex
		}
	}
	out := map[string]bool{}
	for id, o := range m.objs {
		v := normLeaf(o, p)
		c := v.cmp(probe)
		var hit bool
		switch l.Op {
		case "=":
			hit = c == 0
		case "!=":
			hit = c != 0
		case "<":
			hit = c < 0
		case "<=":
			hit = c <= 0
		case ">":
			hit = c > 0
		case ">=":
			hit = c >= 0
		case "~=":
			hit = rex.MatchString(v.s)
		}
		if hit {
			out[id] = true
		}
	}
	return out, OK
}

// Eval evaluates a chain of leaves: And = intersection, Or = union.
func (m *Model) Eval(q Query) (map[string]bool, string) {
	var cur map[string]bool
	for i, l := range q.Leaves {
		s, e := m.evalLeaf(l)
		if e != OK {
			return nil, e
		}
		if i == 0 {
			cur = s
			continue
		}
		switch l.Conn {
		case "and":
			n := map[string]bool{}
			for id := range cur {
				if s[id] {
					n[id] = true
				}
			}
			cur = n
		case "or":
			for id := range s {
				cur[id] = true
			}
		}
	}
	return cur, OK
}

// orderedLast reports whether the result order of q is specified: a single
// comparison, or a chain of Ands, whose last comparison is on an indexed path.
func (m *Model) orderedLast(q Query) (PathInfo, bool) {
	for i, l := range q.Leaves {
		if i > 0 && l.Conn != "and" {
			return PathInfo{}, false
		}
	}
	last := q.Leaves[len(q.Leaves)-1]
	if !m.cfg.Indexed(last.Path) {
		return PathInfo{}, false
	}
	return docPathIndex[last.Path], true
}

// sortedKeys returns the keys of set under path p in non-increasing order.
func (m *Model) sortedKeys(set map[string]bool, p PathInfo, reverse bool) []norm {
	ks := make([]norm, 0, len(set))
	for id := range set {
		ks = append(ks, normLeaf(m.objs[id], p))
	}
	sort.Slice(ks, func(i, j int) bool {
		if reverse {
			return ks[i].cmp(ks[j]) < 0
		}
		return ks[i].cmp(ks[j]) > 0
	})
	return ks
}
