package props

import (
	"encoding/json"
	"fmt"
	"os"
	"path/filepath"
	"sort"
	"strings"
	"testing"
	"time"

	"github.com/0xrawsec/sod"
	"github.com/0xrawsec/sod/vshim"
	"pgregory.net/rapid"
)

// ---------------------------------------------------------------- C10: async writes

type c10State struct {
	e       *Env
	quietMs int              // virtual time since the last API call
	others  map[string]int64 // second collection: uuid -> K
	// third collection, created from the SAME sod.Schema value as the second one (the
	// library then holds one shared *Async for both until one of them is re-created)
	others2  map[string]int64
	otherCfg *AsyncCfg // current async settings of the second collection (nil: synchronous)
	st       *Stats
	// age rule: virtual clock and, per lagging object, since when (and with which value) it lags
	nowMs    int
	lagSince map[string]int
	lagVal   map[string]string
}

// noteLag refreshes the ages of the lagging objects of the first collection.
func (s *c10State) noteLag() {
	e := s.e
	if s.lagSince == nil {
		s.lagSince, s.lagVal = map[string]int{}, map[string]string{}
	}
	w := WalkDir(e.collDir())
	seen := map[string]bool{}
	for id, d := range e.m.objs {
		f, ok := w.Objects[id]
		if ok && f.Err == "" && string(f.Body) == canon(d) {
			continue
		}
		seen[id] = true
		if v, had := s.lagVal[id]; !had || v != canon(d) {
			s.lagSince[id], s.lagVal[id] = s.nowMs, canon(d)
		}
	}
	for id := range s.lagSince {
		if !seen[id] {
			delete(s.lagSince, id)
			delete(s.lagVal, id)
		}
	}
}

// overdue: objects whose last accepted value has been waiting longer than the timeout plus two
// poll steps of virtual time - whether or not other calls were made in the meantime.
func (s *c10State) overdue() []string {
	_, to := s.thresholds()
	s.noteLag()
	var out []string
	for id, since := range s.lagSince {
		if s.nowMs-since >= to+200 {
			out = append(out, fmt.Sprintf("%s (accepted %d ms ago)", s.e.tag(id), s.nowMs-since))
		}
	}
	sort.Strings(out)
	return out
}

type Other2 struct {
	sod.Item
	K int64
	V string
}

func (s *c10State) other2Dir() string {
	name := "props.Other2"
	if s.e.cfg.Lower {
		name = "props._other_2" // camelToSnake: a digit after a lower-case letter gets an underscore
	}
	return filepath.Join(s.e.root, name)
}

func (s *c10State) otherDir() string {
	name := "props.Other"
	if s.e.cfg.Lower {
		name = "props._other"
	}
	return filepath.Join(s.e.root, name)
}

// lagging lists the objects whose last accepted value is not on disk.
func (s *c10State) lagging() (docs []string, others []string, extra []string) {
	e := s.e
	w := WalkDir(e.collDir())
	for id, d := range e.m.objs {
		f, ok := w.Objects[id]
		if !ok || f.Err != "" || string(f.Body) != canon(d) {
			docs = append(docs, e.tag(id))
		}
	}
	for id, f := range w.Objects {
		if _, ok := e.m.objs[id]; !ok {
			extra = append(extra, f.Name)
		}
	}
	wo := WalkDir(s.otherDir())
	for id, k := range s.others {
		f, ok := wo.Objects[id]
		var o Other
		if !ok || f.Err != "" || json.Unmarshal(f.Body, &o) != nil || o.K != k {
			others = append(others, id)
		}
	}
	return
}

func (s *c10State) lagging2() (others2 []string) {
	wo := WalkDir(s.other2Dir())
	for id, k := range s.others2 {
		f, ok := wo.Objects[id]
		var o Other2
		if !ok || f.Err != "" || json.Unmarshal(f.Body, &o) != nil || o.K != k {
			others2 = append(others2, id)
		}
	}
	return
}

func (s *c10State) thresholds() (int, int) {
	return s.e.cfg.Async.Threshold, s.e.cfg.Async.TimeoutMs
}

// settle: the virtual deadline has passed; before declaring a violation give a
// flusher that is still busy in real time (loaded machine) the chance to finish.
func (s *c10State) settle(bad func(docs, others []string) bool) ([]string, []string, []string) {
	docs, others, extra := s.lagging()
	for i := 0; i < 100 && bad(docs, others); i++ {
		vshim.WaitParked(guardReal)
		time.Sleep(20 * time.Millisecond)
		docs, others, extra = s.lagging()
	}
	return docs, others, extra
}

// afterTick applies the two deadline rules.
func (s *c10State) afterTick(where string) {
	e := s.e
	thr, to := s.thresholds()
	docs, others, extra := s.settle(func(d, o []string) bool {
		return (s.quietMs >= 200 && (len(d) >= thr || len(o) >= thr)) || (s.quietMs >= to+200 && len(d)+len(o) > 0)
	})
	if len(extra) > 0 {
		e.failf("%s: files exist for objects that are not stored (deleted while their write was pending?): %v", where, extra)
	}
	if s.quietMs >= 200 {
		if len(docs) >= thr {
			e.failf("%s: %d objects of the Doc collection are not on disk with their last value although the threshold is %d and two poll steps passed without calls: %v", where, len(docs), thr, docs)
		}
		if s.otherCfg != nil && len(others) >= s.otherCfg.Threshold {
			e.failf("%s: %d objects of the second collection are not on disk although its threshold is %d and two poll steps passed without calls", where, len(others), s.otherCfg.Threshold)
		}
		if o2 := s.lagging2(); len(o2) >= thr {
			e.failf("%s: %d objects of the third collection are not on disk although its threshold is %d and two poll steps passed without calls (its settings were never changed; the second collection, created from the same Schema value, was re-created)", where, len(o2), thr)
		}
		if len(docs)+len(others) > 0 {
			e.flag("threshold-rule-checked-with-pending")
		}
	}
	if s.otherCfg == nil && len(others) > 0 {
		e.failf("%s: the second collection is synchronous now but %d of its objects are not on disk", where, len(others))
	}
	if s.quietMs >= to+200 {
		if o2 := s.lagging2(); len(o2) > 0 {
			e.failf("%s: %d ms without calls (timeout %d ms) but %d objects of the third collection are not on disk (its settings were never changed)", where, s.quietMs, to, len(o2))
		}
	}
	if s.otherCfg != nil && s.quietMs >= s.otherCfg.TimeoutMs+200 && len(others) > 0 {
		e.failf("%s: %d ms without calls (timeout of the second collection %d ms) but %d of its objects are not on disk", where, s.quietMs, s.otherCfg.TimeoutMs, len(others))
	}
	if s.otherCfg != nil && s.quietMs < s.otherCfg.TimeoutMs+200 {
		others = nil // not due yet under its own (possibly longer) timeout
	}
	if od := s.overdue(); len(od) > 0 {
		for i := 0; i < 100 && len(od) > 0; i++ {
			vshim.WaitParked(guardReal)
			time.Sleep(20 * time.Millisecond)
			od = s.overdue()
		}
		if len(od) > 0 {
			e.failf("%s: the timeout is %d ms, but these accepted writes are still not on disk (other calls were made in the meantime, which must not postpone them): %v", where, to, od)
		}
	}
	if len(s.lagSince) > 0 && s.quietMs < to+200 {
		e.flag("age-rule-checked-while-calls-continue")
	}
	if s.quietMs >= to+200 {
		if len(docs) > 0 || len(others) > 0 {
			e.failf("%s: %d ms of virtual time passed without calls (timeout %d ms) but %d+%d accepted objects are not on disk with their last value: %v", where, s.quietMs, to, len(docs), len(others), docs)
		}
		e.flag("deadline-timeout-reached")
	}
	dl, ol, _ := s.lagging()
	e.dirty = len(dl)+len(ol)+len(s.lagging2()) > 0
}

// afterFlush: after FlushAll (files) / FlushAllAndCommit / Close (files + schema).
func (s *c10State) afterFlush(where string, committed bool, all bool) {
	e := s.e
	docs, others, extra := s.lagging()
	if len(docs) > 0 {
		e.failf("%s returned but %d accepted objects are not on disk with their last value: %v", where, len(docs), docs)
	}
	if all && len(others) > 0 {
		e.failf("%s returned but %d objects of the second collection are not on disk", where, len(others))
	}
	if o2 := s.lagging2(); all && len(o2) > 0 {
		e.failf("%s returned but %d objects of the third collection are not on disk", where, len(o2))
	}
	if len(extra) > 0 {
		e.failf("%s: files exist for objects that are not stored: %v", where, extra)
	}
	if !committed {
		return
	}
	e.dirty = len(others)+len(s.lagging2()) > 0
	// a second handle loads without corruption and sees the model
	if p := e.walkProblems(true); len(p) > 0 {
		e.failf("%s: directory does not match the model: %v", where, p)
	}
	db2 := sod.Open(e.root)
	defer func() { db2.Close(); vshim.WaitParked(guardReal) }()
	if _, err := db2.Count(&Doc{}); err != nil {
		e.failf("%s: a second handle fails to load the collection: %v", where, err)
	}
	live := *e
	live.db = db2
	live.flags = map[string]int{}
	live.opts = RunOpts{SweepLevel: 1, Control: true}
	if d := live.Diff(); len(d) > 0 {
		if len(d) > 4 {
			d = d[:4]
		}
		e.failf("%s: a second handle on the directory does not see the model:\n%s", where, strings.Join(d, "\n"))
	}
	if all && len(s.others2) > 0 {
		n, err := db2.Count(&Other2{})
		if err != nil || n != len(s.others2) {
			e.failf("%s: third collection: a second handle counts %d objects (err=%v), want %d", where, n, err, len(s.others2))
		}
	}
	if all && len(s.others) > 0 {
		n, err := db2.Count(&Other{})
		if err != nil || n != len(s.others) {
			e.failf("%s: second collection: a second handle counts %d objects (err=%v), want %d", where, n, err, len(s.others))
		}
	}
	e.flag("second-handle-compared")
}

func c10Profile() *Profile {
	return &Profile{
		Property: "C10", MaxOps: pick(14, 30),
		W: map[string]int{"insert": 8, "update": 6, "delete": 3, "many": 2, "resurrect": 1, "query": 2,
			"tick": 10, "flushAll": 1, "flushAllCommit": 1, "flushOne": 1, "reopen": 2, "coldUpdate": 2, "crashRepair": 1, "otherInsert": 3, "other2Insert": 3, "otherSwitch": 2, "deleteAll": 1, "searchDelete": 1},
		AllowCache: true, AllowCompress: true, ForceAsync: true, AllowLower: true,
		MinIndexed: 0, MaxIndexed: 3, MaxUnique: 1, CasePaths: 0,
		TinyBias: 60, BigBias: 8, HookBias: 5, RichShape: 5, MaxLeaves: 1,
	}
}

func TestC10(t *testing.T) {
	if !instrumented() {
		t.Skip("needs the instrumented build")
	}
	st := statsFor("C10")
	st.Rule = "async configurations (threshold 1-8, timeout 100 ms-2 s), two collections on one handle; ops: writes, deletes of pending and of flushed objects, batches, reads, ticks of virtual time (100 ms-1.2 s; time.Sleep of the working-tree copy is owned by the harness, the flusher is stepped deterministically), FlushAll, FlushAllAndCommit, Flush of one object, Close+reopen (so also the one-call-after-reopen shape). Oracle: after every op every read path of the live handle equals the model (visibility at once); after a tick, with q = virtual time since the last call: no file exists for an object that is not stored (deleted while pending); if q >= 2 poll steps fewer than threshold objects per collection lag behind on disk (independent walker compares file bodies with the model); if q >= timeout + 2 steps none lags; independently of q, no accepted value of the first collection waits longer than timeout + 2 steps of virtual time, even when other calls keep arriving (age rule); a restart on a directory that lost an object file (corruption reported, Repair) is an op, after which the same deadlines apply; FlushAll returns with every file on disk, FlushAllAndCommit and Close additionally leave a directory that matches the model (walker incl. schema.json) and that a second handle loads without corruption and reads identically (Close: both collections). Nothing is asserted about flushes happening earlier than a deadline. A third collection is created from the SAME sod.Schema value as the second one and the second one is re-created with other or no async settings at generated points: the third collection must keep its own settings (visibility, threshold and timeout deadlines). The one-call-after-reopen shape (Close, Open, exactly one update, then only time passes) is a dedicated op. TestC10Readers adds the concurrent half: 2-8 reader goroutines (All, unindexed Search, Count, AssignIndex) never leave the handle idle on a 20x scaled clock while threshold- or timeout-many writes are pending; they must reach the disk within 20 s real time (400 s of database time). TestC10Switch (scaled clock): async writes are switched off and on again back to back through Create while 0-4000 writes are pending, so the outgoing flusher overlaps the new settings; writes accepted afterwards must be on disk within 400 s of database time (20 s real) without a further call. TestC10Hammer (scaled clock): 2-6 writers keep rewriting their own 40-200 objects (single InsertOrUpdate and batches) while the flusher fires all the time; after Close a fresh handle reads, for every object, the last value its writer got accepted. TestC10CloseRetry: Close meets one storage fault - every position of its file-system mutations is tried, with 1-5 pending objects, optionally an index committed before and updates after - and is called again; whichever Close returns nil has put every accepted write and a matching index on disk (a new handle loads without corruption, reads every value, Control nil). Non-trivial: a deadline is reached while >= 1 write was lagging at the previous observation, or a pending object is deleted and a flush follows. Distinct by program hash."
	st.Assumptions = append(baseAssumptions(), "the flusher measures time only through time.Sleep/After/Ticker (redirected to the virtual clock)", "threshold >= 1 and timeout >= one poll step")
	prof := c10Profile()
	rapid.Check(t, func(rt *rapid.T) {
		prog := NewG(rt, prof).Program()
		guard(rt, prog, func() { caseC10(rt, prog) })
	})
}

func caseC10(t TB, prog *Program) {
	st := statsFor("C10")
	vshim.ResetClock()
	vshim.SetClock(vshim.ClockVirtual, 1)
	defer func() {
		vshim.SetClock(vshim.ClockReal, 1)
		vshim.ReleaseAll()
	}()
	s := &c10State{others: map[string]int64{}, others2: map[string]int64{}, st: st}
	lagBefore := 0
	pendingDeleted := false
	opts := RunOpts{SweepLevel: 1, SweepEveryOp: true,
		BeforeOp: func(e *Env, i int, op *Op) {
			s.e = e
			d, o, _ := s.lagging()
			lagBefore = len(d) + len(o)
			if op.Op == "delete" {
				if id, ok := e.liveRef(op.Ref); ok {
					for _, tg := range d {
						if tg == e.tag(id) {
							pendingDeleted = true
							e.flag("pending-object-deleted")
						}
					}
				}
			}
		},
		AfterOp: func(e *Env, i int, op *Op) {
			s.e = e
			where := fmt.Sprintf("after op %d (%s)", i, op.Op)
			switch op.Op {
			case "tick":
				if !tick(op.Ms) {
					e.flag("flusher-not-parked-within-guard")
				}
				s.quietMs += op.Ms
				s.nowMs += op.Ms
				s.afterTick(fmt.Sprintf("%s, %d ms after the last call", where, s.quietMs))
				if lagBefore > 0 {
					if d, o, _ := s.lagging(); len(d)+len(o) == 0 {
						e.flag("background-flush-observed")
						if pendingDeleted {
							e.flag("flush-after-pending-delete")
						}
					}
				}
				return
			case "flushAll":
				s.afterFlush(where+": FlushAll", false, false)
			case "flushAllCommit":
				s.afterFlush(where+": FlushAllAndCommit", true, false)
			case "reopen":
				// Close has returned (engine checks the new handle); everything is on disk
				s.afterFlush(where+": Close", true, true)
			case "flushOne":
				if id, ok := e.liveRef(op.Ref); ok {
					d := &Doc{}
					d.Initialize(id)
					// Flush takes the object to write from the caller
					obj, err := e.db.Get(d)
					if err == nil {
						if op.Ref%2 == 1 {
							if err := e.db.FlushAndCommit(obj); err != nil {
								e.failf("%s: FlushAndCommit: %v", where, err)
							}
							e.flag("flush-and-commit-one")
						} else if err := e.db.Flush(obj); err != nil {
							e.failf("%s: Flush: %v", where, err)
						}
						w := WalkDir(e.collDir())
						if f, ok := w.Objects[id]; !ok || string(f.Body) != canon(e.m.objs[id]) {
							e.failf("%s: Flush(%s) returned but the object is not on disk with its last value", where, e.tag(id))
						}
					}
				}
			case "coldUpdate":
				// Close, Open, exactly ONE call (an update of a stored object), then only time passes
				id, ok := e.liveRef(op.Ref)
				if !ok {
					break
				}
				if err := e.db.Close(); err != nil {
					e.failf("%s: Close: %v", where, err)
				}
				vshim.WaitParked(guardReal)
				e.db = sod.Open(e.root)
				d := cloneDoc(e.m.objs[id])
				applySets(d, op.Sets)
				e.upsert(where, d, id)
				vshim.WaitParked(guardReal)
				_, to := s.thresholds()
				s.noteLag()
				tick(to + 300)
				s.quietMs = to + 300
				s.nowMs += to + 300
				e.flag("one-call-after-reopen")
				s.afterTick(fmt.Sprintf("%s: reopen, one update, then %d ms without any call", where, s.quietMs))
			case "crashRepair":
				// the process is restarted on a directory that lost one object file: the first
				// load reports corruption, Repair fixes it - and async writes must work as before
				id, ok := e.liveRef(op.Ref)
				if !ok {
					break
				}
				if err := e.db.Close(); err != nil {
					e.failf("%s: Close: %v", where, err)
				}
				vshim.WaitParked(guardReal)
				w := WalkDir(e.collDir())
				f, ok := w.Objects[id]
				if !ok {
					e.failf("%s: Close returned but %s has no file", where, e.tag(id))
				}
				os.Remove(filepath.Join(e.collDir(), f.Name))
				e.db = sod.Open(e.root)
				if _, err := e.db.Count(&Doc{}); !sod.IsIndexCorrupted(err) {
					e.failf("%s: an object file was removed while the database was closed; the first load returned %v, want ErrIndexCorrupted", where, err)
				}
				if err := e.db.Repair(&Doc{}); err != nil {
					e.failf("%s: Repair: %v", where, err)
				}
				e.trackDelete(id)
				e.m.Delete(id)
				e.flag("restart-with-corruption-then-repair")
				vshim.WaitParked(guardReal)
			case "other2Insert":
				o := &Other2{K: int64(len(s.others2) + 1), V: "v"}
				if err := e.db.InsertOrUpdate(o); err != nil {
					e.failf("%s: insert into the third collection: %v", where, err)
				}
				s.others2[o.UUID()] = o.K
				got, err := e.db.Get(&Other2{Item: itemOf(o.UUID())})
				if err != nil || got.(*Other2).K != o.K {
					e.failf("%s: an accepted async write into the third collection is not visible at once: %v (the second collection, created from the same Schema value, may have been re-created with other settings; this one never was)", where, err)
				}
			case "otherSwitch":
				// re-create the SECOND collection with other async settings (or none)
				ns := sod.DefaultSchema
				var nc *AsyncCfg
				if op.Ms > 0 {
					nc = &AsyncCfg{Threshold: 1 + op.Ref%6, TimeoutMs: op.Ms}
					ns.Asynchrone(nc.Threshold, time.Duration(nc.TimeoutMs)*time.Millisecond)
				}
				if err := e.db.Create(&Other{}, ns); err != nil {
					e.failf("%s: re-creating the second collection with other async settings: %v", where, err)
				}
				s.otherCfg = nc
				e.flag("second-collection-recreated")
				// everything accepted stays readable, in all three collections
				for id, k := range s.others2 {
					got, err := e.db.Get(&Other2{Item: itemOf(id)})
					if err != nil || got.(*Other2).K != k {
						e.failf("%s: after re-creating the second collection, an object of the third collection is no longer readable: %v", where, err)
					}
				}
				for id, k := range s.others {
					got, err := e.db.Get(&Other{Item: itemOf(id)})
					if err != nil || got.(*Other).K != k {
						e.failf("%s: after re-creating the second collection one of its objects is no longer readable: %v", where, err)
					}
				}
			case "otherInsert":
				o := &Other{K: int64(len(s.others) + 1), V: "v"}
				if err := e.db.InsertOrUpdate(o); err != nil {
					e.failf("%s: insert into the second collection: %v", where, err)
				}
				s.others[o.UUID()] = o.K
				got, err := e.db.Get(&Other{Item: itemOf(o.UUID())})
				if err != nil || got.(*Other).K != o.K {
					e.failf("%s: an accepted async write into the second collection is not visible at once: %v", where, err)
				}
			}
			s.quietMs = 0
			vshim.WaitParked(guardReal)
			s.noteLag()
			// integrity is only comparable when nothing lags behind on disk
			dl, ol, _ := s.lagging()
			e.dirty = len(dl)+len(ol)+len(s.lagging2()) > 0
		},
	}
	e := NewEnv(t, prog, opts)
	s.e = e
	defer e.Teardown()
	o := sod.DefaultSchema
	o.Asynchrone(e.cfg.Async.Threshold, time.Duration(e.cfg.Async.TimeoutMs)*time.Millisecond)
	if err := e.db.Create(&Other{}, o); err != nil {
		e.failf("Create second collection: %v", err)
	}
	// same Schema value (hence the same *Async) for the third collection
	if err := e.db.Create(&Other2{}, o); err != nil {
		e.failf("Create third collection: %v", err)
	}
	oc := *e.cfg.Async
	s.otherCfg = &oc
	vshim.WaitParked(guardReal)
	e.Run()
	// final Close: complete for every collection
	if err := e.db.Close(); err != nil {
		e.failf("Close: %v", err)
	}
	e.db = sod.Open(e.root)
	s.afterFlush("final Close", true, true)
	cfgFlags(e)
	nt := e.flags["deadline-timeout-reached"] > 0 && e.flags["background-flush-observed"] > 0 || e.flags["flush-after-pending-delete"] > 0
	st.Case(prog.Hash(), nt, e.flags, func() interface{} { return prog })
	_ = os.Getenv
}

func itemOf(uuid string) sod.Item {
	var it sod.Item
	it.Initialize(uuid)
	return it
}

func init() {
	replayers["C10"] = func(t *testing.T, prog *Program) { guardT(t, prog, func() { caseC10(t, prog) }) }
}
